"""C20 — the C interface does exactly what the corresponding C++ calls do (wrapper table, bounds, kinds)."""
import os
import re
from engine import render, strip, Graph, Assume, must, reachable_events
from facts import AnalysisBroken, CALL_KINDS
import modifiers as M

EXPLANATION = (
    "Decides structural necessary conditions of C20 for every extern \"C\" function of soplex_interface.cpp (56 today, cross-checked "
    "against the declarations in soplex_interface.h): R20.1 the wrapper calls exactly the C++ member(s) its name stands for, on the handle "
    "cast of its first parameter, and a non-void wrapper returns that call's result through casts only (status / parameter codes are the "
    "C++ enumerators: no arithmetic, no remapping); R20.2 every subscript of a pointer parameter is by a loop variable bounded by an int "
    "parameter of the same function (or by the *nnonzeros the function itself stored), a local vector that a C++ getter may have re-sized "
    "is never read beyond its own dim(), string buffers are sized from the string that is copied (R20.4); R20.3 arguments reach the C++ "
    "parameter of the same kind: lower/lhs vs upper/rhs vs objective, index parameters as indices, and every Rational(num, denom) is built "
    "from the two halves of one pair in that order. NOT decided: value equality through the C layer beyond this plumbing, the callee's "
    "own behaviour for lengths that are too small.")

C = M.CLS
IFACE = 'soplex_interface.cpp'

RENAMES = {
    'readInstanceFile': ['readFile'], 'readSettingsFile': ['loadSettingsFile'], 'setRational': ['setIntParam', 'setRealParam'],
    'getIntParam': ['intParam'], 'changeRowLhsReal': ['changeLhsReal'], 'changeRowRhsReal': ['changeRhsReal'], 'changeRowRangeReal': ['changeRangeReal'],
    'changeVarBoundsReal': ['changeBoundsReal'], 'changeVarBoundsRational': ['changeBoundsRational'], 'changeVarLowerReal': ['changeLowerReal'],
    'changeVarUpperReal': ['changeUpperReal'], 'getPrimalRationalString': ['getPrimalRational'], 'objValueRationalString': ['objValueRational'],
    'getStatus': ['status'], 'getSolvingTime': ['solveTime'], 'getNumIterations': ['numIterations'], 'writeFileReal': ['writeFile'],
    'getRowVectorRational': ['getRowRational'], 'getRowBoundsReal': ['lhsReal', 'rhsReal'], 'getRowBoundsRational': ['lhsRational', 'rhsRational'],
    'create': [], 'free': [],
}


def kind_of_name(nm):
    """LP-quantity kind carried by a parameter / local name"""
    n = nm.lower()
    n = re.sub(r'^p_', '', n)
    if n.startswith(('lb', 'lower', 'lhs', 'newlower', 'newlhs')):
        return 'LOW'
    if n.startswith(('ub', 'upper', 'rhs', 'newupper', 'newrhs')):
        return 'UP'
    if n.startswith(('obj', 'newobj')):
        return 'OBJ'
    return None


def pair_stem(nm):
    m = re.match(r'^(.*?)(nums?|denoms?)$', nm)
    if not m:
        return None, None
    return m.group(1), 'num' if m.group(2).startswith('num') else 'denom'


def run(fb, rep, tier):
    _run(fb, rep, tier)
    owning_vectors(fb, rep)


def _run(fb, rep, tier):
    rep.extra['explanation'] = EXPLANATION
    fs = [f for f in fb.funcs.values() if f.file.endswith(IFACE) and f.externc]
    fs.sort(key=lambda f: f.line)
    import facts as _facts
    hdr = open(os.path.join(_facts.SRC, 'soplex_interface.h')).read()
    declared = set(re.findall(r'\b(SoPlex_\w+)\s*\(', hdr))
    rep.rule('R20.0', 'every function declared in soplex_interface.h is defined extern "C" in soplex_interface.cpp and vice versa', floor=50)
    defined = set(f.short for f in fs)
    for nm in sorted(declared | defined):
        rep.check(nm in declared and nm in defined, 'R20.0', nm, 'src/soplex_interface.h', 'declared and defined', 'declared=%s defined=%s' % (nm in declared, nm in defined), nontrivial=False)
    if len(fs) < 50:
        raise AnalysisBroken('only %d extern "C" wrappers found (56 confirmed)' % len(fs))

    rep.rule('R20.1', 'wrapper calls exactly the C++ member(s) its name stands for, on the handle, and returns that result through casts only', floor=100)
    rep.rule('R20.2', 'pointer parameters are subscripted only by loop variables bounded by an int parameter / stored *nnonzeros; re-sizable local vectors are not read beyond dim()', floor=30)
    rep.rule('R20.3', 'arguments reach the C++ parameter of the same kind (lower/lhs, upper/rhs, objective); Rational(num, denom) is built from one pair in order', floor=40)
    rep.rule('R20.3a', 'every Rational(num, denom) is built from the numerator and the denominator of one pair, at the same index', floor=12)
    rep.rule('R20.6', 'a vector local handed to a C++ vector getter has the dimension of the LP (numCols() / numRows()) unless that getter assigns the whole vector', floor=4)
    rep.rule('R20.4', 'a buffer length computed from a string is computed after the definition of that string that reaches the copy', floor=2)

    for f in fs:
        base = f.short[len('SoPlex_'):]
        want = RENAMES.get(base, [base])
        w = f.where()
        mem = [c for c in f.calls() if c.k == 'CXXMemberCallExpr' and c.n.startswith(C + '::')]
        # dimension queries used to size a temporary are not an effect of the wrapper
        got = sorted(set(c.short for c in mem if not (c.short in ('numCols', 'numRows') and c.short not in want)))
        rep.check(got == sorted(set(want)), 'R20.1', f.short + '|members', w, 'calls %s' % got, 'calls %s, expected %s' % (got, sorted(set(want))))
        # handle discipline
        handle = f.params[0][0] if f.params else None
        for c in mem:
            o = c.obj()
            ok = o is not None and o.k == 'DeclRefExpr' and o.dk == 'local'
            src = None
            if ok:
                for v in f.nodes:
                    if v.k == 'VarDecl' and v.n == o.n and v.c:
                        src = render(v.kids[0])
            rep.check(ok and src is not None and handle in src, 'R20.1', '%s|handle|%s' % (f.short, c.short), '%s:%d' % (f.file, c.l), 'called on the cast of `%s`' % handle,
                      'member is not called on the handle cast of the first parameter (%s)' % src)
        if base == 'create':
            news = [n for n in f.nodes if n.k == 'CXXNewExpr']
            rep.check(len(news) == 1 and 'SoPlexBase<double>' in news[0].x.get('at', ''), 'R20.1', f.short + '|new', w, 'new SoPlex', 'does not create a SoPlex object')
        if base == 'free':
            dels = [n for n in f.nodes if n.k == 'CXXDeleteExpr']
            rep.check(len(dels) == 1, 'R20.1', f.short + '|delete', w, 'delete so', 'does not delete the object')
        # return plumbing
        if f.ret in ('int', 'double') and mem:
            rets = [n for n in f.nodes if n.k == 'ReturnStmt' and n.c]
            for r in rets:
                e = strip(r.kids[0])
                while e.k in ('CStyleCastExpr', 'CXXStaticCastExpr', 'ImplicitCastExpr', 'CXXFunctionalCastExpr') and e.c:
                    e = strip(e.kids[0])
                rep.check(e.k == 'CXXMemberCallExpr' and e.short in want, 'R20.1', f.short + '|returns-result', '%s:%d' % (f.file, r.l), 'returns %s' % render(e),
                          'returns %s instead of the unmodified result of %s' % (render(r.kids[0]), want))
        # parameter/status codes: casts only
        for c in mem:
            if c.short in ('setBoolParam', 'setIntParam', 'setRealParam', 'intParam') and base != 'setRational':
                a = c.args()
                e = strip(a[0])
                inner = e
                while inner.k in ('CStyleCastExpr', 'CXXStaticCastExpr', 'ImplicitCastExpr') and inner.c:
                    inner = strip(inner.kids[0])
                rep.check(inner.k == 'DeclRefExpr' and inner.dk == 'parm' and inner.n == 'paramcode', 'R20.1', f.short + '|param-code', '%s:%d' % (f.file, c.l), 'parameter code passed by cast only',
                          'parameter code is transformed: %s' % render(a[0]))
                if len(a) > 1 and c.short.startswith('set'):
                    v = strip(a[1])
                    while v.k in ('CStyleCastExpr', 'CXXStaticCastExpr', 'ImplicitCastExpr') and v.c:
                        v = strip(v.kids[0])
                    rep.check(v.k == 'DeclRefExpr' and v.n == 'paramvalue', 'R20.1', f.short + '|param-value', '%s:%d' % (f.file, c.l), 'value passed through', 'value is transformed: %s' % render(a[1]))

        bounds(fb, rep, f)
        kinds(fb, rep, f, mem)
        strings(fb, rep, f)


# ---------------------------------------------------------------------------------------------------
def loop_bound_of(f, var):
    """(bound expression text, loop node) of the for loop that declares var"""
    for n in f.nodes:
        if n.k == 'ForStmt' and n.kid('init') is not None and any(v.k == 'VarDecl' and v.n == var for v in n.kid('init').walk()):
            c = n.kid('cond')
            return c, n
    return None, None


def bounds(fb, rep, f):
    ptr_params = {p[0]: p[1] for p in f.params[1:] if p[1].endswith('*')}
    int_params = [p[0] for p in f.params if p[1] == 'int']
    seen = set()
    for n in f.nodes:
        if n.k == 'ArraySubscriptExpr':
            b, ix = strip(n.kids[0]), strip(n.kids[1])
            if b.k == 'DeclRefExpr' and b.dk == 'parm' and b.n in ptr_params:
                key = '%s|%s[%s]' % (f.short, b.n, render(ix))
                if key in seen:
                    continue
                seen.add(key)
                wh = '%s:%d' % (f.file, n.l)
                if ix.k != 'DeclRefExpr' or ix.dk != 'local':
                    rep.unrec('R20.2', key, wh, 'index %s is not a loop variable' % render(ix))
                    continue
                cond, loop = loop_bound_of(f, ix.n)
                if cond is None:
                    rep.unrec('R20.2', key, wh, 'loop of %s not found' % ix.n)
                    continue
                c = strip(cond)
                txt = render(c)
                # i < P   or   (i < P) && (i < v.dim())
                lims = []
                for x in c.walk():
                    if x.k == 'BinaryOperator' and x.o == '<' and render(strip(x.kids[0])) == ix.n:
                        lims.append(render(strip(x.kids[1])))
                good = any(l in int_params or l == '*nnonzeros' for l in lims)
                # an array named after rows / columns (colentries, colnums, rowdenoms ...) has <stem>size entries: that parameter, not the
                # number of nonzeros that sits next to it, is the length of the dense array
                own = [q for q in int_params if q.endswith('size') and b.n.startswith(q[:-4])]
                if good and own and not any(l in own for l in lims):
                    rep.bad('R20.2', key, wh, '%s has %s entries (soplex_interface.h), but the loop that subscripts it is bounded by %s: entries beyond that are dropped, or read beyond the array'
                            % (b.n, own[0], lims))
                    continue
                rep.check(good, 'R20.2', key, wh, 'index bounded by %s' % lims, '%s is subscripted by %s whose loop is bounded by %s, not by a length the caller gave' % (b.n, ix.n, lims or txt))
    # pointer parameters handed to a C++ callee together with a length: the length is an int parameter
    for n in f.nodes:
        if n.k in ('CXXConstructExpr', 'CXXTemporaryObjectExpr') and n.t.startswith('soplex::VectorBase<') and len(n.c) == 2:
            a0, a1 = strip(n.kids[0]), strip(n.kids[1])
            if a1.k == 'DeclRefExpr' and (a1.n in ptr_params):
                key = '%s|VectorBase(%s, %s)' % (f.short, render(a0), a1.n)
                rep.check(a0.k == 'DeclRefExpr' and a0.n in int_params, 'R20.2', key, '%s:%d' % (f.file, n.l), 'vector view of %s with the caller\'s length %s' % (a1.n, render(a0)),
                          'vector view of %s is created with length %s, which is not a length parameter' % (a1.n, render(a0)))
    for c in f.calls():
        if c.k == 'CXXMemberCallExpr' and c.n.startswith(C + '::'):
            a = [strip(x) for x in c.args()]
            for k, x in enumerate(a):
                if x.k == 'DeclRefExpr' and x.dk == 'parm' and x.n in ptr_params and ptr_params[x.n] in ('double *',) and k + 1 < len(a):
                    nx = a[k + 1]
                    key = '%s|%s(%s, %s)' % (f.short, c.short, x.n, render(nx))
                    rep.check(nx.k == 'DeclRefExpr' and nx.n in int_params, 'R20.2', key, '%s:%d' % (f.file, c.l), 'array passed with the caller\'s length', 'array %s is passed with length %s' % (x.n, render(nx)))
    # local vectors passed by non-const reference to a C++ getter may be re-sized by it
    for c in f.calls():
        if c.k != 'CXXMemberCallExpr' or not c.n.startswith(C + '::') or not c.short.startswith('get'):
            continue
        callee = fb.funcs.get(c.u)
        for k, x in enumerate(c.args()):
            sx = strip(x)
            if sx.k != 'DeclRefExpr' or sx.dk != 'local':
                continue
            pt = callee.params[k][1] if callee is not None and k < len(callee.params) else ''
            if not (pt.endswith('&') and not pt.startswith('const ')):
                continue
            if 'VectorBase' not in sx.t or 'SVectorBase' in sx.t or 'DSVectorBase' in sx.t:
                continue
            # R20.6: the dimension the local was created with
            decl = [d for d in f.nodes if d.k == 'VarDecl' and d.u == sx.u]
            if decl and decl[0].c:
                ctor = strip(decl[0].kids[0])
                cargs = [render(strip(a_)) for a_ in (ctor.kids if ctor.k in ('CXXConstructExpr', 'CXXTemporaryObjectExpr') else [])]
                whole = callee is not None and any(z.k == 'CXXOperatorCallExpr' and (z.short or '') == 'operator=' and z.args() and strip(z.args()[0]).k == 'DeclRefExpr'
                                                   and strip(z.args()[0]).n == callee.params[k][0] for z in callee.nodes)
                dimtest = callee is not None and any(z.k == 'BinaryOperator' and z.o in ('>=', '==', '<', '!=') and ('%s.dim()' % callee.params[k][0]) in render(z) for z in callee.nodes)
                whole = whole or dimtest
                lpdim = bool(cargs) and re.search(r'->num(Cols|Rows)(Real|Rational)?\(\)$', cargs[0]) is not None
                key6 = '%s|%s(%s) -> %s' % (f.short, sx.n, ','.join(cargs)[:30], c.short)
                rep.check(lpdim or whole or not cargs, 'R20.6', key6, '%s:%d' % (f.file, decl[0].l),
                          'LP dimension' if lpdim else 'the getter assigns the whole vector / tests its dimension itself' if whole else 'default-constructed',
                          '%s is created with %s entries and handed to %s, which fills numCols() / numRows() entries without re-sizing it (on a scaled LP it goes through '
                          'SPxScaler::get..Unscaled): a smaller dimension is overrun, a different one trips the dimension assertion' % (sx.n, cargs[0] if cargs else '?', c.short))
            # reads v[i] after the call
            for n in f.nodes:
                if n.k == 'CXXOperatorCallExpr' and n.o == '[]' and n.i > c.i:
                    a = n.args()
                    if render(a[0]) == sx.n:
                        ix = strip(a[1])
                        cond, loop = loop_bound_of(f, ix.n) if ix.k == 'DeclRefExpr' else (None, None)
                        txt = render(cond) if cond is not None else ''
                        key = '%s|%s[%s] after %s' % (f.short, sx.n, render(ix), c.short)
                        rep.check('%s.dim()' % sx.n in txt, 'R20.2', key, '%s:%d' % (f.file, n.l), 'read bounded by %s.dim()' % sx.n,
                                  '%s may have been re-sized by %s; it is read up to %s without comparing with %s.dim()' % (sx.n, c.short, txt, sx.n))


# ---------------------------------------------------------------------------------------------------
def local_kind(f, name, depth=0):
    """kind of a local: from its own name, else from the parameters its initialiser mentions"""
    k = kind_of_name(name)
    if k:
        return k
    if depth > 2:
        return None
    ks = set()
    for v in f.nodes:
        if v.k == 'VarDecl' and v.n == name:
            for x in v.walk():
                if x.k == 'DeclRefExpr' and x.dk in ('parm', 'local') and x.n != name:
                    kk = kind_of_name(x.n) or (local_kind(f, x.n, depth + 1) if x.dk == 'local' else None)
                    if kk:
                        ks.add(kk)
    return ks.pop() if len(ks) == 1 else None


def expr_kind(f, e):
    ks = set()
    for x in e.walk():
        if x.k == 'DeclRefExpr' and x.dk == 'parm':
            k = kind_of_name(x.n)
            if k:
                ks.add(k)
        elif x.k == 'DeclRefExpr' and x.dk == 'local':
            k = local_kind(f, x.n)
            if k:
                ks.add(k)
    return ks.pop() if len(ks) == 1 else ('MIXED' if len(ks) > 1 else None)


def kinds(fb, rep, f, mem):
    # (a) Rational(num, denom) pairs
    for n in f.nodes:
        if n.k in ('CXXConstructExpr', 'CXXTemporaryObjectExpr') and n.t in ('Rational', 'const Rational') and len([k for k in n.kids if k.k != 'CXXDefaultArgExpr']) == 2:
            a, b = strip(n.kids[0]), strip(n.kids[1])

            def root(e):
                for x in e.walk():
                    if x.k == 'DeclRefExpr' and x.dk == 'parm':
                        return x.n
                return None
            ra, rb = root(a), root(b)
            if ra is None or rb is None:
                continue
            sa, ha = pair_stem(ra)
            sb, hb = pair_stem(rb)
            key = '%s|Rational(%s, %s)' % (f.short, render(a), render(b))
            if sa is None or sb is None:
                rep.unrec('R20.3a', key, '%s:%d' % (f.file, n.l), 'not a num/denom pair')
                continue
            ia = [render(x) for x in a.walk() if x.k == 'ArraySubscriptExpr']
            ib = [render(x) for x in b.walk() if x.k == 'ArraySubscriptExpr']
            same_index = [t.split('[', 1)[1] for t in ia] == [t.split('[', 1)[1] for t in ib]
            rep.check(sa == sb and ha == 'num' and hb == 'denom' and same_index, 'R20.3a', key, '%s:%d' % (f.file, n.l), 'numerator and denominator of one pair, same index',
                      'the rational is built from %s and %s, which are not the numerator and denominator of the same value' % (render(a), render(b)))
    # (b) kinds of arguments against the callee's parameter names (members and LPRow/LPCol constructors)
    sites = list(mem) + [n for n in f.nodes if n.k in ('CXXConstructExpr', 'CXXTemporaryObjectExpr') and ('LPRowBase' in n.t or 'LPColBase' in n.t) and len(n.c) >= 3]
    for c in sites:
        callee = fb.funcs.get(c.u)
        if callee is None:
            continue
        args = c.args() if c.k == 'CXXMemberCallExpr' else c.kids
        for k, a in enumerate(args):
            if k >= len(callee.params) or a.k == 'CXXDefaultArgExpr':
                continue
            pk = kind_of_name(callee.params[k][0])
            if pk is None:
                continue
            ak = expr_kind(f, a)
            key = '%s|%s#%d(%s)' % (f.short, c.short or 'ctor', k, callee.params[k][0])
            if ak is None:
                rep.ok('R20.3', key, '%s:%d' % (f.file, c.l), 'argument %s carries no kind' % render(a)[:40], nontrivial=False)
            else:
                rep.check(ak == pk, 'R20.3', key, '%s:%d' % (f.file, c.l), '%s -> %s' % (render(a)[:40], callee.params[k][0]),
                          'argument %s (%s) is passed for parameter %s (%s)' % (render(a)[:60], ak, callee.params[k][0], pk))
    # (c) index parameters are passed as indices: an int parameter named *idx / i goes to an int parameter in first position
    for c in mem:
        a = [strip(x) for x in c.args()]
        for k, x in enumerate(a):
            if x.k == 'DeclRefExpr' and x.dk == 'parm' and re.search(r'(idx|^i)$', x.n):
                rep.check(k == 0, 'R20.3', '%s|index-arg|%s' % (f.short, c.short), '%s:%d' % (f.file, c.l), 'index first', 'index parameter %s is passed in position %d' % (x.n, k))
    # (d) output pairs: *lbnum = numerator(lhs...), *ubdenom = denominator(rhs...)
    for n in f.nodes:
        if n.k == 'BinaryOperator' and n.o == '=':
            l = strip(n.kids[0])
            if l.k == 'UnaryOperator' and l.o == '*' and strip(l.kids[0]).k == 'DeclRefExpr' and strip(l.kids[0]).dk == 'parm':
                pn = strip(l.kids[0]).n
                r = n.kids[1]
                rt = render(r)
                stem, half = pair_stem(pn)
                kd = kind_of_name(pn)
                key = '%s|*%s = %s' % (f.short, pn, rt[:40])
                conds = []
                if kd == 'LOW':
                    conds.append('lhs' in rt.lower() or 'lower' in rt.lower())
                if kd == 'UP':
                    conds.append('rhs' in rt.lower() or 'upper' in rt.lower())
                if half == 'num':
                    conds.append('numerator(' in rt)
                if half == 'denom':
                    conds.append('denominator(' in rt)
                if conds:
                    rep.check(all(conds), 'R20.3', key, '%s:%d' % (f.file, n.l), 'output receives the matching quantity', '*%s receives %s' % (pn, rt))
    # (e) element-wise output pairs coefsnum[j] = numerator(row.value(j)) ...
    for n in f.nodes:
        if n.k == 'BinaryOperator' and n.o == '=':
            l = strip(n.kids[0])
            if l.k == 'ArraySubscriptExpr' and strip(l.kids[0]).k == 'DeclRefExpr' and strip(l.kids[0]).dk == 'parm':
                pn = strip(l.kids[0]).n
                ix = render(strip(l.kids[1]))
                rt = render(n.kids[1])
                stem, half = pair_stem(pn)
                conds = []
                if half == 'num':
                    conds.append('numerator(' in rt)
                if half == 'denom':
                    conds.append('denominator(' in rt)
                if pn == 'indices':
                    conds.append('.index(' in rt)
                if pn in ('coefs',):
                    conds.append('.value(' in rt)
                # the element read uses the same position as the element written
                rix = re.findall(r'\.(?:value|index)\((\w+)\)|\[(\w+)\]', rt)
                flat = [a or b for a, b in rix]
                if flat:
                    conds.append(all(x == ix for x in flat))
                if conds:
                    rep.check(all(conds), 'R20.3', '%s|%s[%s] = ...' % (f.short, pn, ix), '%s:%d' % (f.file, n.l), '%s[%s] = %s' % (pn, ix, rt[:50]), '%s[%s] receives %s' % (pn, ix, rt))


# ---------------------------------------------------------------------------------------------------
def strings(fb, rep, f):
    lens = [n for n in f.nodes if n.k == 'CallExpr' and n.short == 'strlen']
    for sl in lens:
        src = [x for x in sl.walk() if x.k == 'DeclRefExpr' and x.dk == 'local']
        if not src:
            continue
        name = src[0].n
        # last write to the string before the copy must precede the strlen
        writes = [n for n in f.nodes if (n.k == 'CXXOperatorCallExpr' and n.o in ('=', '+=') and render(n.args()[0]) == name) or
                  (n.k == 'CXXMemberCallExpr' and n.short in ('append', 'assign', 'push_back') and render(n.obj()) == name)]
        copies = [n for n in f.nodes if n.k == 'CallExpr' and n.short in ('strncpy', 'memcpy', 'strcpy') and name in render(n)]
        later = [wr for wr in writes if wr.l > sl.l or (wr.l == sl.l and wr.i > sl.i)]
        later = [wr for wr in later if not copies or wr.l <= copies[0].l]
        rep.check(not later and bool(copies), 'R20.4', '%s|strlen(%s)' % (f.short, name), '%s:%d' % (f.file, sl.l), 'length taken after the last write to %s' % name,
                  'the length is taken at line %d but %s is (re)assigned at line %s before it is copied' % (sl.l, name, later[0].l if later else '?'))
        # the allocation uses that length
        news = [n for n in f.nodes if n.k == 'CXXNewExpr' and n.x.get('arr')]
        lenvar = None
        for a in f.ancestors(sl):
            if a.k == 'BinaryOperator' and a.o == '=':
                lenvar = render(a.kids[0])
        if news and lenvar:
            rep.check(all(lenvar in render(x) for nn in news for x in nn.kids[:1]), 'R20.4', '%s|new char[%s]' % (f.short, lenvar), '%s:%d' % (f.file, news[0].l), 'buffer sized by ' + lenvar, 'buffer is not sized by ' + lenvar)


def owning_vectors(fb, rep):
    """R20.5: SVectorBase is a view without storage of its own (its memory is handed to it by a DSVector / SVSet).  A local SVectorBase
    that was default-constructed must never be the target of an assignment: there is nowhere to copy to."""
    rep.rule('R20.5', 'no default-constructed (storage-less) SVectorBase local is assigned to; vector locals that receive data own their memory', floor=4)
    k = 0
    for f in fb.funcs.values():
        if not (f.file.endswith(IFACE) or f.name.startswith('soplex::SoPlexBase<double>::')) or not f.nodes:
            continue
        for d in f.nodes:
            if d.k != 'VarDecl' or not re.match(r'^(soplex::)?(D?SVectorBase<.*>|D?SVector(Real|Rational)?|DSVector)$', (d.t or '').replace('const ', '')):
                continue
            asg = [n for n in f.nodes if n.k == 'CXXOperatorCallExpr' and n.o == '=' and n.args() and strip(n.args()[0]).k == 'DeclRefExpr' and strip(n.args()[0]).u == d.u]
            if not asg:
                continue
            k += 1
            plain = re.match(r'^(soplex::)?(SVectorBase<.*>|SVector(Real|Rational)?)$', (d.t or '').replace('const ', '')) is not None
            noinit = not d.c or (d.kids and d.kids[0].k == 'CXXConstructExpr' and all(a.k == 'CXXDefaultArgExpr' for a in d.kids[0].args()))
            rep.check(not (plain and noinit), 'R20.5', '%s|%s %s' % (f.short, d.t.replace('soplex::', '')[:30], d.n), '%s:%d' % (f.file, asg[0].l), 'the target owns its memory (%s)' % d.t.replace('soplex::', '')[:30],
                      '%s is a default-constructed %s, which has no storage, and is assigned to at line %d: the copy has nowhere to go (assertion max() >= size, wild write without it)' % (d.n, d.t.replace('soplex::', ''), asg[0].l))
    if k < 4:
        raise AnalysisBroken('R20.5: only %d assigned vector locals found' % k)
