"""Rule instances, verdict protocol, known-findings handling and the evidence writer."""
import json
import os
import time

VERIF = os.path.dirname(os.path.dirname(os.path.abspath(__file__)))
# scratch runs of the seed tester write their evidence elsewhere so that /verif/evidence always describes /repo itself
EVID = os.environ.get('SPX_EVIDENCE_DIR', os.path.join(VERIF, 'evidence'))

HOLDS, VIOLATED, UNRECOGNISED = 'HOLDS', 'VIOLATED', 'UNRECOGNISED'


class Report(object):
    def __init__(self, prop):
        self.prop = prop
        self.instances = []
        self.rules = {}      # rule id -> {'text':..., 'floor': n}
        self.notes = []
        self.not_decided = []
        self.accepted_idioms = []
        self.extra = {}
        self.helper_evals = 0

    def rule(self, rid, text, floor=1):
        self.rules[rid] = {'text': text, 'floor': floor}

    def inst(self, rule, key, where, verdict, detail='', nontrivial=True, path=None):
        """key identifies the construct semantically: '<function>|<thing>' - never a line number"""
        assert rule in self.rules, rule
        d = {'rule': rule, 'key': key, 'where': where, 'verdict': verdict, 'detail': detail, 'nontrivial': nontrivial}
        if path:
            d['path_lines'] = path
        self.instances.append(d)
        return verdict == HOLDS

    def ok(self, rule, key, where, detail='', **kw):
        return self.inst(rule, key, where, HOLDS, detail, **kw)

    def bad(self, rule, key, where, detail='', **kw):
        return self.inst(rule, key, where, VIOLATED, detail, **kw)

    def unrec(self, rule, key, where, detail='', **kw):
        return self.inst(rule, key, where, UNRECOGNISED, detail, **kw)

    def check(self, cond, rule, key, where, ok_detail='', bad_detail='', **kw):
        return self.inst(rule, key, where, HOLDS if cond else VIOLATED, ok_detail if cond else bad_detail, **kw)


def load_known():
    p = os.path.join(VERIF, 'known_findings.json')
    if not os.path.exists(p):
        return []
    return json.load(open(p))['findings']


def finish(rep, tier, t0, fb, seed=0):
    """apply floors and known findings, write evidence, print verdict lines, return exit code"""
    prop = rep.prop
    known = [k for k in load_known() if k['property'] == prop]
    active = {(k['rule'], k['key']): k for k in known if k.get('status') == 'known'}
    lines = []
    broken = []
    per_rule = {}
    for i in rep.instances:
        per_rule.setdefault(i['rule'], []).append(i)
    for rid, r in sorted(rep.rules.items()):
        n = len(per_rule.get(rid, []))
        if n < r['floor']:
            broken.append('rule %s matched %d instances, confirmed floor is %d' % (rid, n, r['floor']))
    viol = []
    knownhits = []
    for i in rep.instances:
        if i['verdict'] == UNRECOGNISED:
            broken.append('rule %s instance %s at %s: shape not recognised (%s)' % (i['rule'], i['key'], i['where'], i['detail']))
        elif i['verdict'] == VIOLATED:
            k = active.get((i['rule'], i['key']))
            if k is not None:
                i['known_finding'] = k.get('id', True)
                knownhits.append((i, k))
            else:
                viol.append(i)
    unused = [k for kk, k in active.items() if not any(h[1] is k for h in knownhits)]
    os.makedirs(os.path.join(EVID, 'replay'), exist_ok=True)
    # stale replay files of this property
    rdir = os.path.join(EVID, 'replay')
    for f in os.listdir(rdir):
        if f.startswith(prop + '-'):
            os.remove(os.path.join(rdir, f))
    for n, i in enumerate(viol):
        p = os.path.join(rdir, '%s-%d.json' % (prop, n))
        json.dump(dict(i, property=prop, how_to_replay='./check %s --replay %s  (re-evaluates this rule instance on /repo and prints it)' % (prop, p)),
                  open(p, 'w'), indent=1)
        i['replay'] = p
    decided = [i for i in rep.instances if i['verdict'] != UNRECOGNISED]
    holds = [i for i in rep.instances if i['verdict'] == HOLDS]
    distinct = set((i['rule'], i['key']) for i in decided if i['nontrivial'])
    samples = []
    seen_rules = {}
    for i in rep.instances:
        c = seen_rules.get(i['rule'], 0)
        if c < 3 or i['verdict'] != HOLDS:
            samples.append({k: v for k, v in i.items() if k != 'nontrivial'})
            seen_rules[i['rule']] = c + 1
    ev = {
        'property_id': prop,
        'tier': tier,
        'seed': seed,
        'level': 'other',
        'coverage': {
            'explanation': rep.extra.pop('explanation', ''),
            'obligations': len(rep.instances),
            'discharged': len(holds),
            'evaluations': len(rep.instances) + rep.helper_evals,
            'distinct_nontrivial': len(distinct),
            'rule': 'one obligation = one rule instance (call site, function x mode, table row) discovered in the resolved program of '
                    '/repo\'s current tree; non-trivial = the instance\'s precondition is met (its anchor exists and the path/mode it '
                    'speaks about is feasible under the stated assumption); distinct = distinct (rule, semantic key) pairs',
            'rules': {rid: dict(r, instances=len(per_rule.get(rid, [])),
                                violated=sum(1 for i in per_rule.get(rid, []) if i['verdict'] == VIOLATED))
                      for rid, r in sorted(rep.rules.items())},
            'samples': samples[:120],
            'exhaustive': True,
            'units': [u['summary'] for u in fb.meta['units']] if fb is not None else [],
            'functions_analysed': len(fb.funcs) if fb is not None else 0,
            'known_findings': [{'rule': i['rule'], 'key': i['key'], 'where': i['where'], 'id': k.get('id')} for i, k in knownhits],
            'not_decided': rep.not_decided,
            'accepted_idioms': rep.accepted_idioms,
            'notes': rep.notes,
        },
        'assumptions': rep.extra.pop('assumptions', []),
        'wall_s': round(time.time() - t0, 2),
        'violations': len(viol),
    }
    ev['coverage'].update(rep.extra)
    if broken:
        ev['coverage']['analysis_broken'] = broken
    json.dump(ev, open(os.path.join(EVID, prop + '.json'), 'w'), indent=1)
    for i, k in knownhits:
        print('KNOWN-FINDING: property=%s %s %s at %s: %s' % (prop, i['rule'], i['key'], i['where'], k.get('what', i['detail'])))
    for k in unused:
        print('note: known finding %s (%s %s) no longer fires on this tree' % (k.get('id'), k['rule'], k['key']))
    for rid in sorted(rep.rules):
        ins = per_rule.get(rid, [])
        print('%s %s: %d instances, %d hold, %d violated (floor %d)' % (prop, rid, len(ins), sum(1 for i in ins if i['verdict'] == HOLDS),
                                                                      sum(1 for i in ins if i['verdict'] == VIOLATED), rep.rules[rid]['floor']))
    if broken and not viol:
        for b in broken[:20]:
            print('ANALYSIS-BROKEN property=%s reason=%s' % (prop, b))
        return 2
    if broken:
        # a violated instance usually is the reason why fewer instances than confirmed were found: the violation is reported
        for b in broken[:10]:
            print('note: %s' % b)
    if viol:
        for i in viol:
            print('  violated: %s %s at %s: %s' % (i['rule'], i['key'], i['where'], i['detail']))
            print('VIOLATION property=%s replay=%s' % (prop, i['replay']))
        return 1
    print('OK property=%s obligations=%d discharged=%d known_findings=%d wall=%.1fs' % (prop, len(rep.instances), len(holds), len(knownhits), time.time() - t0))
    return 0
