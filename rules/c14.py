"""C14 — basis files and state files restore exactly what was saved (table clauses)."""
import re
from engine import render, strip, Graph, Assume, must, reachable_events
from facts import AnalysisBroken, CALL_KINDS
import modifiers as M

EXPLANATION = (
    "Decides structural necessary conditions of C14: R14.1 every record token a basis writer emits (both writers: SPxBasisBase::writeBasis "
    "and the branch of SoPlexBase::writeBasisFile for an LP held outside the solver) is a token the reader handles; both writers emit the "
    "same token under the same status / row-type condition; the reader's arm for each token assigns the statuses the writer's arm had "
    "(composition of the two decision tables is the identity on valid bases, FIXED marking apart); the reader's defaults for columns that "
    "the writer omits are the statuses the writer omits; R14.2 default names are generated per item from a fresh buffer (loop-carried "
    "accumulation of a stream/string that is consumed every iteration is reported, with a positive and a negative control), and reader "
    "and writers use the same default-name formats for rows and columns; R14.3 the state writers pass one pair of name sets to the LP "
    "writer and the basis writer, write settings / LP / basis under the documented extensions, and saveSettingsFile writes each value "
    "next to the name of the same table and index and records the random seed. NOT decided: the solve result from a restored basis, the "
    "MPS writer's normalisations (C12).")

C = M.CLS
B = 'soplex::SPxBasisBase<double>'
TOKEN = re.compile(r'^ ?(XU|XL|UL|LL) ?$')


def streamed_literals(f):
    """string literals inserted into a stream in f (operator<<), with their node"""
    out = []
    for n in f.nodes:
        if n.k == 'StringLiteral' and n.v is not None:
            out.append(n)
    return out


def enclosing_conds(f, n):
    cs = []
    for a in f.ancestors(n):
        if a.k == 'IfStmt':
            th = a.kid('then')
            inthen = th is not None and any(x.i == n.i for x in th.walk())
            cs.append(('' if inthen else '!') + render(a.kid('cond')))
    return cs


def run(fb, rep, tier):
    rep.extra['explanation'] = EXPLANATION
    rd = fb.one(B + '::readBasis')
    wr = fb.one(B + '::writeBasis')
    wr2 = fb.one(C + '::writeBasisFile')

    # ------------------------------------------------------------------ R14.1 tokens
    rep.rule('R14.1', 'writer tokens are reader tokens; sibling writers agree; reader arms assign what the writer arms had; reader defaults are what the writer omits', floor=20)
    rtok = {}
    for n in rd.nodes:
        if n.k == 'CallExpr' and n.short == 'strcmp' and 'field1()' in render(n):
            for x in n.walk():
                if x.k == 'StringLiteral' and x.v:
                    rtok[x.v] = n
    hdr = set(x.v for n in rd.nodes if n.k == 'CallExpr' and n.short == 'strcmp' and 'field0()' in render(n) for x in n.walk() if x.k == 'StringLiteral')
    if len(rtok) < 3:
        raise AnalysisBroken('readBasis: token comparisons not found (%s)' % sorted(rtok))
    wtoks = {}
    for name, f in (('writeBasis', wr), ('writeBasisFile', wr2)):
        toks = {}
        for n in streamed_literals(f):
            m = TOKEN.match(n.v)
            if m and not f.in_assert(n):
                toks[m.group(1)] = n
        wtoks[name] = toks
        if not toks:
            raise AnalysisBroken('%s: no record tokens found' % name)
        for t, n in sorted(toks.items()):
            rep.check(t in rtok, 'R14.1', '%s|token|%s' % (name, t), '%s:%d' % (f.file, n.l), 'token %s is handled by readBasis' % t, 'token %s is written but readBasis has no arm for it' % t)
        lits = set(n.v for n in streamed_literals(f))
        rep.check(any(l.startswith('NAME') for l in lits) and any(l.startswith('ENDATA') for l in lits) and {'NAME', 'ENDATA'} <= hdr, 'R14.1', name + '|header-trailer', f.where(),
                  'NAME / ENDATA written and recognised', 'NAME / ENDATA records do not agree between writer and reader')
    rep.check(set(wtoks['writeBasis']) == set(wtoks['writeBasisFile']), 'R14.1', 'siblings|token-sets', wr2.where(), 'both writers emit %s' % sorted(wtoks['writeBasis']),
              'the two basis writers emit different tokens: %s vs %s' % (sorted(wtoks['writeBasis']), sorted(wtoks['writeBasisFile'])))
    # writer conditions
    for name, f, up_row, up_col, rng in (('writeBasis', wr, 'P_ON_UPPER', 'P_ON_UPPER', 'RANGE'), ('writeBasisFile', wr2, 'ON_UPPER', 'ON_UPPER', 'RANGETYPE_BOXED')):
        toks = wtoks[name]
        if 'XU' in toks:
            cs = ' && '.join(enclosing_conds(f, toks['XU']))
            ok = up_row in cs and 'cpxFormat' in cs and rng in cs and ('rowStatus(row)' in cs or '_basisStatusRows[row]' in cs)
            rep.check(ok, 'R14.1', name + '|XU-condition', '%s:%d' % (f.file, toks['XU'].l), cs[:160], 'XU is written under %s: expected "row status is on-upper and (not cpxFormat or the row is ranged)"' % cs[:200])
        if 'XL' in toks:
            cs = enclosing_conds(f, toks['XL'])
            ok = bool(cs) and cs[0].startswith('!') and up_row in cs[0]
            rep.check(ok, 'R14.1', name + '|XL-condition', '%s:%d' % (f.file, toks['XL'].l), 'XL is the else-arm of the XU test', 'XL is not the complement of the XU condition: %s' % cs[:2])
        if 'UL' in toks:
            cs = ' && '.join(enclosing_conds(f, toks['UL']))
            ok = up_col in cs and ('colStatus(col)' in cs or '_basisStatusCols[col]' in cs)
            rep.check(ok, 'R14.1', name + '|UL-condition', '%s:%d' % (f.file, toks['UL'].l), cs[:160], 'UL is written under %s: expected "column is nonbasic on its upper bound"' % cs[:200])
        # basic columns are paired with the next nonbasic row: the scan condition tests the row status for 'nonbasic'
        # and the row counter advances after every pairing
        incs = [n for n in f.nodes if n.k == 'UnaryOperator' and n.o in ('post++', '++') and render(n.kids[0]) == 'row' and not f.in_assert(n)]
        rep.check(len(incs) >= 2, 'R14.1', name + '|row-cursor', f.where(), 'row cursor advances in the scan and after each pairing', 'the nonbasic-row cursor does not advance after a pairing (the same row would be paired twice)')
    # reader arms
    expect = {
        'XU': {'col': 'dualColStatus(c)', 'rows': [('GREATER_EQUAL', 'P_ON_LOWER'), ('EQUAL', 'P_FIXED'), (None, 'P_ON_UPPER')]},
        'XL': {'col': 'dualColStatus(c)', 'rows': [('LESS_EQUAL', 'P_ON_UPPER'), ('EQUAL', 'P_FIXED'), (None, 'P_ON_LOWER')]},
        'UL': {'col': 'P_ON_UPPER', 'rows': []},
        'LL': {'col': 'P_ON_LOWER', 'rows': []},
    }
    for tok, cmpn in sorted(rtok.items()):
        if tok not in expect:
            rep.unrec('R14.1', 'readBasis|arm|' + tok, '%s:%d' % (rd.file, cmpn.l), 'token without a specification')
            continue
        arm = None
        for a in rd.ancestors(cmpn):
            if a.k == 'IfStmt' and any(x.i == cmpn.i for x in a.kid('cond').walk()):
                arm = a.kid('then')
                break
        if arm is None:
            rep.unrec('R14.1', 'readBasis|arm|' + tok, '%s:%d' % (rd.file, cmpn.l), 'arm not found')
            continue
        cols, rows = [], []
        for n in arm.walk():
            if n.k == 'BinaryOperator' and n.o == '=':
                l, r = render(n.kids[0]), render(n.kids[1])
                if l == 'l_desc.colstat[c]':
                    cols.append(r)
                elif l == 'l_desc.rowstat[r]':
                    cs = [c for c in enclosing_conds(rd, n) if 'type(r)' in c]
                    pos = [c for c in cs if not c.startswith('!')]
                    m = re.search(r'== (\w+)\)', pos[0]) if pos else None
                    rows.append((m.group(1) if m else None, r))
        e = expect[tok]
        rep.check(cols == [e['col']], 'R14.1', 'readBasis|arm|%s|column' % tok, '%s:%d' % (rd.file, cmpn.l), 'column status %s' % cols, 'token %s sets the column status to %s, the writer wrote it for %s' % (tok, cols, e['col']))
        rep.check(rows == e['rows'], 'R14.1', 'readBasis|arm|%s|row' % tok, '%s:%d' % (rd.file, cmpn.l), 'row status table %s' % rows, 'token %s maps row types to %s, expected %s' % (tok, rows, e['rows']))
    # reader defaults for columns
    defaults = []
    for n in rd.nodes:
        if n.k == 'BinaryOperator' and n.o == '=' and render(n.kids[0]) == 'l_desc.colstat[i]':
            defaults.append(render(n.kids[1]))
    rep.check(defaults == ['P_FIXED', 'P_FREE', 'P_ON_UPPER', 'P_ON_LOWER'], 'R14.1', 'readBasis|column-defaults', rd.where(), 'defaults fixed/free/upper-if-no-lower/lower',
              'default column statuses are %s; the writer omits exactly P_FIXED / P_FREE / P_ON_LOWER (and P_ON_UPPER only when no finite lower bound exists)' % defaults)
    rdef = [render(n.kids[1]) for n in rd.nodes if n.k == 'BinaryOperator' and n.o == '=' and render(n.kids[0]) == 'l_desc.rowstat[i]']
    rep.check(rdef == ['dualRowStatus(i)'], 'R14.1', 'readBasis|row-defaults', rd.where(), 'rows default to basic', 'default row status is %s, the writer omits exactly the basic rows' % rdef)
    # success criterion
    ok, p, _ = must(rd, Assume(atoms={'mps.hasError()': False, '(mps.section() == ENDATA)': True}), lambda n: n.k == 'CXXMemberCallExpr' and n.short == 'loadDesc')
    rep.check(ok, 'R14.1', 'readBasis|loads-descriptor', rd.where(), 'a file read to ENDATA without error is loaded', 'a complete file is parsed but the descriptor is not loaded', path=p)

    # ------------------------------------------------------------------ R14.2 names
    rep.rule('R14.2', 'default names: fresh buffer per generated name; same row/column name format in reader and writers', floor=6)
    hits = accumulating_buffers(fb)
    ctl = [h for h in hits if h[0].name.startswith('verif_ctl::')]
    real = [h for h in hits if not h[0].name.startswith('verif_ctl::')]
    if not any(h[0].short == 'accumulating_names' for h in ctl) or any(h[0].short == 'fresh_names' for h in ctl):
        raise AnalysisBroken('R14.2 controls: positive control must fire and negative control must stay silent (fired: %s)' % [h[0].short for h in ctl])
    rep.ok('R14.2', 'control|accumulating_names', 'units/controls.cpp', 'positive control fires, negative control silent', nontrivial=False)
    ordinal = {}
    for f, v, use in real:
        ordinal[(f.u, v.n)] = ordinal.get((f.u, v.n), 0) + 1
        rep.bad('R14.2', '%s|accumulating|%s#%d' % (f.short, v.n, ordinal[(f.u, v.n)]), '%s:%d' % (f.file, use.l),
                '`%s` is declared outside the loop, appended to and consumed in every iteration without being reset: generated names accumulate (x0, x0x1, ...)' % v.n)
    scanned = 0
    for f in fb.funcs.values():
        if f.name.startswith('soplex::') and any(n.k == 'VarDecl' and ('stringstream' in n.t or n.t == 'std::string') for n in f.nodes):
            scanned += 1
    rep.ok('R14.2', 'scan|all-functions', 'src', '%d functions with a local stream/string scanned, %d accumulating buffers' % (scanned, len(real)), nontrivial=False)
    # formats
    fmt = {}
    for nm, kind in (('getRowName', 'row'), ('getColName', 'col')):
        fs = [f for f in fb.by_short.get(nm, []) if f.file.endswith('spxbasis.hpp')]
        if not fs:
            raise AnalysisBroken('spxbasis.hpp: %s not found' % nm)
        lits = [n.v for n in fs[0].nodes if n.k == 'StringLiteral' and n.v and '%d' in n.v]
        fmt[('writeBasis', kind)] = lits[0].replace('%d', '') if lits else None
    for n in rd.nodes:
        if n.k == 'StringLiteral' and n.v in ('x', 'C') and not rd.in_assert(n):
            conds = ' '.join(enclosing_conds(rd, n))
            if 'colNames' in conds:
                fmt[('readBasis', 'col')] = n.v
            elif 'rNames' in conds or 'rowNames' in conds:
                fmt[('readBasis', 'row')] = n.v
    for n in wr2.nodes:
        if n.k == 'StringLiteral' and n.v in ('x', 'C') and not wr2.in_assert(n):
            conds = ' '.join(enclosing_conds(wr2, n))
            if 'colNames' in conds:
                fmt[('writeBasisFile', 'col')] = n.v
            elif 'rowNames' in conds:
                fmt[('writeBasisFile', 'row')] = n.v
    for kind in ('row', 'col'):
        vals = {k[0]: v for k, v in fmt.items() if k[1] == kind}
        if len(vals) < 3:
            rep.unrec('R14.2', 'format|' + kind, rd.where(), 'default %s name format not found in all three places: %s' % (kind, vals))
        else:
            rep.check(len(set(vals.values())) == 1, 'R14.2', 'format|' + kind, rd.where(), 'default %s names are "%s<index>" everywhere' % (kind, list(vals.values())[0]),
                      'default %s name prefixes differ: %s' % (kind, vals))
    # the index that is appended is the item's own index
    for f, arr in ((rd, (('"x"', 'j'), ('"C"', 'i'))),):
        for lit, var in arr:
            ok = any(render(n).replace(' ', '').endswith('<<%s)' % var) and lit in render(n) for n in f.nodes if n.k == 'CXXOperatorCallExpr' and n.o == '<<')
            rep.check(ok, 'R14.2', 'readBasis|name-index|' + lit, f.where(), 'name = %s << %s' % (lit, var), 'default name %s is not followed by the item index %s' % (lit, var))

    # ------------------------------------------------------------------ R14.3 state files
    rep.rule('R14.3', 'state writers: one pair of name sets for LP and basis; documented extensions; settings written name-by-name from the same table and index; random seed recorded', floor=12)
    for nm, lpw in (('writeStateReal', 'writeFileReal'), ('writeStateRational', 'writeFileRational')):
        f = fb.one(C + '::' + nm)
        w = f.where()
        lp = [n for n in f.nodes if M.is_this_call(n, lpw)]
        bs = [n for n in f.nodes if M.is_this_call(n, 'writeBasisFile')]
        st = [n for n in f.nodes if M.is_this_call(n, 'saveSettingsFile')]
        rep.check(len(lp) == 1 and len(bs) == 1 and len(st) == 1, 'R14.3', nm + '|three-files', w, 'settings, LP and basis are written', 'not all of settings / LP / basis are written (%d/%d/%d)' % (len(st), len(lp), len(bs)))
        if len(lp) == 1 and len(bs) == 1:
            la = [render(a) for a in lp[0].args()]
            ba = [render(a) for a in bs[0].args()]
            rep.check(la[1:3] == ['rowNames', 'colNames'] and ba[1:3] == ['rowNames', 'colNames'], 'R14.3', nm + '|same-names', w, 'both writers get (rowNames, colNames)',
                      'name sets differ or are swapped: LP writer %s, basis writer %s' % (la[1:3], ba[1:3]))
            rep.check(len(ba) > 3 and ba[3] == 'cpxFormat', 'R14.3', nm + '|cpxFormat-forwarded', w, 'cpxFormat forwarded to the basis writer', 'cpxFormat is not forwarded to the basis writer (%s)' % ba[3:])
            # LP written unscaled
            rep.check(len(la) > 4 and la[4] == 'true', 'R14.3', nm + '|unscaled-lp', w, 'LP written with unscale=true', 'the LP of a state file is written in scaled form (unscale=%s)' % (la[4] if len(la) > 4 else '?')) if nm == 'writeStateReal' else None
        exts = set(n.v for n in f.nodes if n.k == 'StringLiteral' and n.v and n.v.startswith('.'))
        rep.check({'.set', '.bas', '.lp', '.mps'} <= exts, 'R14.3', nm + '|extensions', w, 'extensions %s' % sorted(exts), 'file extensions are %s, expected .set .lp/.mps .bas' % sorted(exts))
    f = fb.one(C + '::saveSettingsFile')
    w = f.where()
    for typ, arr, tab in (('bool', '_boolParamValues', 'boolParam'), ('int', '_intParamValues', 'intParam'), ('real', '_realParamValues', 'realParam')):
        loops = [n for n in f.nodes if n.k == 'ForStmt' and arr in render(n.kid('body')) if n.kid('body') is not None]
        if len(loops) != 1:
            rep.unrec('R14.3', 'saveSettingsFile|%s|loop' % typ, w, 'expected one loop over %s, found %d' % (arr, len(loops)))
            continue
        body = loops[0].kid('body')
        txt = render(body)
        lits = [x.v for x in body.walk() if x.k == 'StringLiteral' and x.v]
        names = [x for x in body.walk() if x.k == 'ArraySubscriptExpr' and render(x).endswith('.name[i]')]
        rep.check(any(l.startswith(typ + ':') for l in lits), 'R14.3', 'saveSettingsFile|%s|prefix' % typ, '%s:%d' % (f.file, loops[0].l), 'lines start with "%s:"' % typ, 'values of %s are written with the prefixes %s' % (arr, [l for l in lits if ':' in l]))
        rep.check(bool(names) and all(('%s.name[i]' % tab) in render(x) for x in names), 'R14.3', 'saveSettingsFile|%s|name-table' % typ, '%s:%d' % (f.file, loops[0].l), 'name from %s.name[i]' % tab,
                  'the value %s[i] is written next to a name from another table: %s' % (arr, [render(x) for x in names][:2]))
        vals = [x for x in body.walk() if x.k == 'ArraySubscriptExpr' and arr in render(x) and not render(x).endswith('[i]')]
        rep.check(not vals, 'R14.3', 'saveSettingsFile|%s|value-index' % typ, '%s:%d' % (f.file, loops[0].l), 'value index is the loop index', 'value is read at %s' % [render(x) for x in vals][:2])
    ok_, wh_, det_ = real_notation(fb)
    rep.check(ok_, 'R14.3', 'saveSettingsFile|real|notation', wh_, det_, det_)
    seed = [n for n in f.nodes if n.k == 'StringLiteral' and n.v and 'uint:random_seed' in n.v]
    rep.check(bool(seed) and any('random.getSeed()' in render(a) for s in seed for a in [x for x in f.ancestors(s) if x.k == 'CXXOperatorCallExpr'][-1:]), 'R14.3', 'saveSettingsFile|random-seed', w,
              'uint:random_seed = _solver.random.getSeed()', 'the random seed is not written')


def real_notation(fb):
    """saveSettingsFile writes tolerances like 1e-9 and limits like 1e100: when the loop over the real parameters starts, the last notation set on
    the stream (SPxOut::setScientific / setFixed, statements of the function body in order) must be the scientific one - in fixed notation
    with 8 decimals a tolerance of 1e-9 is written as 0.00000000 and read back as zero."""
    f = fb.one(C + '::saveSettingsFile')
    loops = [n for n in f.nodes if n.k == 'ForStmt' and n.kid('body') is not None and '_realParamValues' in render(n.kid('body'))]
    if len(loops) != 1 or f.body is None:
        raise AnalysisBroken('saveSettingsFile: the loop over the real parameters was not found')
    last = None
    for st in f.body.kids:
        if st.i == loops[0].i:
            break
        for x in st.walk():
            if x.is_call() and x.short in ('setScientific', 'setFixed'):
                last = x
            if x.k == 'DeclRefExpr' and x.n and x.n.split('::')[-1] in ('scientific', 'fixed'):
                last = x
    wh = '%s:%d' % (f.file, loops[0].l)
    if last is None:
        return False, wh, 'no notation is set before the real parameters are written: the stream default drops small values'
    nm = last.short if last.is_call() else last.n.split('::')[-1]
    if nm in ('setScientific', 'scientific'):
        return True, wh, 'scientific notation (line %d) is in force when the real values are written' % last.l
    return False, wh, 'the last notation set before the real parameters are written is %s (line %d): a tolerance such as 1e-9 is written as 0.00000000 and re-read as 0' % (nm, last.l)


def accumulating_buffers(fb):
    """(function, buffer VarDecl, consuming use) for stream/string locals declared outside a loop, appended to and consumed inside
    it in every iteration, never reset inside it"""
    out = []
    for f in fb.funcs.values():
        bufs = [n for n in f.nodes if n.k == 'VarDecl' and (('stringstream' in n.t) or n.t == 'std::string') and not n.x.get('ref')]
        if not bufs:
            continue
        loops = [n for n in f.nodes if n.k in ('ForStmt', 'WhileStmt', 'DoStmt', 'CXXForRangeStmt')]
        for v in bufs:
            for lp in loops:
                body = lp.kid('body') if lp.k != 'CXXForRangeStmt' else (lp.kids[-1] if lp.c else None)
                if body is None:
                    continue
                inside = set(x.i for x in lp.walk())
                if v.i in inside:
                    continue
                appends, consumes, resets = [], [], []
                for x in body.walk():
                    if x.k == 'CXXOperatorCallExpr' and x.o in ('<<', '+='):
                        a = x.args()
                        root = strip(a[0])
                        while root.k == 'CXXOperatorCallExpr' and root.o == '<<':
                            root = strip(root.args()[0])
                        if root.k == 'DeclRefExpr' and root.u == v.u:
                            appends.append(x)
                    if x.k == 'CXXMemberCallExpr' and x.obj() is not None and strip(x.obj()).k == 'DeclRefExpr' and strip(x.obj()).u == v.u:
                        if x.short in ('append', 'push_back'):
                            appends.append(x)
                        elif x.short == 'str' and len(x.args()) == 0 or x.short == 'c_str':
                            consumes.append(x)
                        elif x.short in ('clear', 'assign', 'erase', 'swap') or (x.short == 'str' and len(x.args()) == 1):
                            resets.append(x)
                    if x.k == 'CXXOperatorCallExpr' and x.o == '=' and strip(x.args()[0]).k == 'DeclRefExpr' and strip(x.args()[0]).u == v.u:
                        resets.append(x)
                    if x.k == 'DeclRefExpr' and x.u == v.u and v.t == 'std::string':
                        p = x.parent
                        if p is not None and p.is_call() and p.short not in ('append', 'push_back', 'operator+=') and not (p.k == 'CXXOperatorCallExpr' and p.o in ('+=', '=')):
                            consumes.append(x)
                if appends and consumes and not resets:
                    out.append((f, v, consumes[0]))
                    break
    return out
