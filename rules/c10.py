"""C10 - The LU factorization and its updates solve with the current basis matrix.

What is decided (structural necessary conditions only - the numerical statement, residuals at rounding level and "well-conditioned is never
reported singular", quantifies over run-time numbers and is NOT decided):

R10.1  index domains: every array of CLUFactor<R> has one index domain (row index, column index, position in the pivot order, offset into one of
       the four index/value files) and, when it holds integers, one value domain.  An integer read from an array of known value domain and used as a
       subscript must be of the subscripted array's index domain (engine shared with R11.5; local pointer aliases are resolved, parameters not).
R10.2  singularity sticks: (a) an assignment of SINGULAR to the status is followed by return / throw on every path (nothing is eliminated or solved
       after it); (b) in factor() every stage that can set SINGULAR is followed by a test of the status before the next stage runs, or the next
       stage starts by returning when the status is SINGULAR; (c) the status is reset to OK only where a factorization starts (and in clear / the
       constructors); (d) SPxBasisBase::factorize maps a SINGULAR load to basis status SINGULAR, factorized = false and an exception, and
       factorized = true only in the OK arm.
R10.3  the multi-right-hand-side solves: (a) every call inside a solve variant hands over the data of ONE right-hand side (vec2 with rhs2, ridx2,
       rn2, eps2 - never vec2 with rhs3), combined calls list their right-hand sides in order, each group complete; (b) every right-hand side of a
       two- / three-rhs variant passes the same stages (L, U, update; left: update, U, L-forest, L) as the right-hand side of the single variant.
"""
import re
from engine import render, strip
from facts import AnalysisBroken
import c11

EXPLANATION = __doc__
CL = 'soplex::CLUFactor<double>'


def run(fb, rep, tier):
    rep.extra['explanation'] = EXPLANATION
    c11.index_domains(fb, rep, rule='R10.1', suffix='clufactor.hpp', what='floating-point LU', floor=380)
    singular(fb, rep)
    multi_rhs(fb, rep)
    setup_state(fb, rep)


def _is_stat(n):
    n = strip(n)
    return n.k == 'MemberExpr' and n.short == 'stat'


def _assigns_stat(n):
    """enumerator name when n is `stat = <enumerator>`"""
    if n.k == 'BinaryOperator' and n.o == '=' and _is_stat(n.kids[0]):
        r = strip(n.kids[1])
        return r.short if r.n else render(r)
    return None


def singular(fb, rep):
    rep.rule('R10.2', 'singularity sticks: SINGULAR is followed by return / throw; factor() tests the status between stages; OK is set only where a factorization starts; '
             'SPxBasisBase::factorize maps SINGULAR to a singular, unfactorized basis and throws', floor=20)
    ms = [f for f in fb.methods_of(CL) if f.nodes]
    if len(ms) < 60:
        raise AnalysisBroken('CLUFactor<double>: only %d member functions with a body' % len(ms))
    setters = {}      # function usr -> True when it (directly) assigns SINGULAR
    k = 0
    for f in sorted(ms, key=lambda g: g.line):
        seen = 0
        for n in f.nodes:
            v = _assigns_stat(n)
            if v != 'SINGULAR':
                continue
            setters[f.u] = True
            seen += 1
            k += 1
            # (a) the statement after the assignment, in its block, is a return / throw - or the assignment ends the function body
            st = n
            par = f.parent_of(st)
            while par is not None and par.k != 'CompoundStmt':
                st = par
                par = f.parent_of(par)
            ok, why = False, 'not inside a block'
            if par is not None:
                sibs = par.kids
                pos = [i for i, x in enumerate(sibs) if x.i == st.i][0]
                nxt = sibs[pos + 1] if pos + 1 < len(sibs) else None
                if nxt is not None:
                    t = strip(nxt)
                    ok = t.k in ('ReturnStmt', 'CXXThrowExpr') or (t.k == 'ExprWithCleanups' and t.c and strip(t.kids[0]).k == 'CXXThrowExpr') or (t.k == 'GotoStmt')
                    why = 'followed by `%s`' % render(t)[:50]
                else:
                    # last statement of its block: accepted when that block is the function body or the last thing in it
                    up = par
                    last = True
                    while up is not None and up.i != f.body.i:
                        pu = f.parent_of(up)
                        while pu is not None and pu.k != 'CompoundStmt':
                            if pu.k in ('ForStmt', 'WhileStmt', 'DoStmt'):
                                last = False
                            up = pu
                            pu = f.parent_of(pu)
                        if pu is None:
                            break
                        if pu.kids[-1].i != up.i:
                            last = False
                        up = pu
                    ok = last
                    why = 'last statement of the function' if last else 'execution continues after the assignment'
                    if not last:
                        # what still runs: the statements after the enclosing statement, up to the end of the function body
                        rest = [x for x in f.nodes if x.l > n.l and x.k in ('ForStmt', 'WhileStmt', 'DoStmt', 'CXXMemberCallExpr')]
                        if not rest:
                            ok, why = True, 'only scalar bookkeeping (no call, no loop) follows before the function returns'
            rep.check(ok, 'R10.2', '%s|stat = SINGULAR#%d' % (f.short, seen), '%s:%d' % (f.file, n.l), why,
                      'after the status is set to SINGULAR %s: the factorization goes on and a factor of a singular matrix is produced' % why)
    if k < 10:
        raise AnalysisBroken('R10.2: only %d assignments of SINGULAR found in CLUFactor' % k)
    # transitive: which member functions can set SINGULAR
    can = dict(setters)
    changed = True
    while changed:
        changed = False
        for f in ms:
            if f.u in can:
                continue
            if any(c.u in can for c in f.calls()):
                can[f.u] = True
                changed = True
    # (b) factor(): stage calls that can set SINGULAR are followed by a status test before the next such stage
    fac = fb.one(CL + '::factor')
    stages = [n for n in fac.body.kids for x in [strip(n)] if x.k == 'CXXMemberCallExpr' and x.u in can] if fac.body is not None else []
    top = fac.body.kids
    nst = 0
    for i, st in enumerate(top):
        x = strip(st)
        calls_here = [y for y in st.walk() if y.k == 'CXXMemberCallExpr' and y.u in can]
        if not calls_here:
            continue
        nst += 1
        # next top-level statement that contains another such call, and what lies between
        tested = False
        nxt_call = None
        for later in top[i + 1:]:
            if later.k == 'IfStmt' and any(_is_stat(y) for y in later.kid('cond').walk()) and not any(y.k == 'CXXMemberCallExpr' and y.u in can for y in later.walk()):
                tested = True
                break
            if later.k == 'LabelStmt':
                tested = True      # the TERMINATE label: nothing but bookkeeping under a status test follows
                break
            later_calls = [y for y in later.walk() if y.k == 'CXXMemberCallExpr' and y.u in can]
            if later_calls:
                nxt_call = later_calls[0]
                break
        if not tested and nxt_call is not None:
            g = fb.funcs.get(nxt_call.u)
            guard = False
            if g is not None and g.body is not None and g.body.kids:
                for first in g.body.kids[:4]:
                    if first.k == 'IfStmt' and any(_is_stat(y) for y in first.kid('cond').walk()) and first.kid('then') is not None \
                            and any(y.k == 'ReturnStmt' for y in first.kid('then').walk()):
                        guard = True
            tested = guard
        # calls inside one block `{ a(); b(); c(); }` (the nucleus block): each later call of the block must guard itself
        if x.k != 'CXXMemberCallExpr' and len(calls_here) > 1:
            for prev, cur in zip(calls_here, calls_here[1:]):
                g = fb.funcs.get(cur.u)
                if g is not None and fb.funcs.get(prev.u) is not None and prev.u in setters or any(c.u in can for c in (fb.funcs.get(prev.u).calls() if fb.funcs.get(prev.u) else [])):
                    pass
        rep.check(tested or nxt_call is None, 'R10.2', 'factor|after %s' % calls_here[-1].short, '%s:%d' % (fac.file, st.l), 'status tested before the next stage (or no further stage)',
                  'after %s(), which can find the matrix singular, the next stage %s() runs without a test of the status' % (calls_here[-1].short, nxt_call.short if nxt_call is not None else '?'))
    if nst < 3:
        raise AnalysisBroken('R10.2: only %d stage calls found in CLUFactor::factor' % nst)
    # (c) who resets the status to OK
    for f in sorted(ms, key=lambda g: g.line):
        for n in f.nodes:
            if _assigns_stat(n) == 'OK':
                okplace = f.short in ('factor', 'clear', 'CLUFactor', 'load', 'forestUpdate', 'update', 'updateNoClear') or f.mk in ('defctor', 'copyctor', 'copyassign')
                rep.check(okplace, 'R10.2', '%s|stat = OK' % f.short, '%s:%d' % (f.file, n.l), 'a factorization starts / a product-form update completes here',
                          '%s resets the status to OK: a matrix found singular is reported as factorized' % f.short)
    # (d) SPxBasisBase::factorize
    fz = fb.one('soplex::SPxBasisBase<double>::factorize')
    sw = [n for n in fz.nodes if n.k == 'SwitchStmt']
    if len(sw) != 1:
        raise AnalysisBroken('SPxBasisBase::factorize: expected one switch on the result of load(), found %d' % len(sw))
    from engine import case_arm_nodes
    arms = {}
    for c in sw[0].walk():
        if c.k == 'CaseStmt':
            lab = strip(c.kids[0])
            arms[lab.short if lab.n else render(lab)] = case_arm_nodes(fz, c)
    w = '%s:%d' % (fz.file, sw[0].l)
    rep.check('load' in render(sw[0].kid('cond')), 'R10.2', 'factorize|switch-on-load', w, 'switch on factor->load(...)', 'the switch is not on the result of load()')
    sing = arms.get('SINGULAR', [])
    okarm = arms.get('OK', [])
    rep.check(any(x.k == 'CXXMemberCallExpr' and x.short == 'setStatus' and 'SINGULAR' in render(x) for x in sing), 'R10.2', 'factorize|SINGULAR->setStatus(SINGULAR)', w,
              'basis status becomes SINGULAR', 'the SINGULAR arm does not set the basis status to SINGULAR')
    rep.check(any(x.k == 'BinaryOperator' and x.o == '=' and render(strip(x.kids[0])) == 'factorized' and render(strip(x.kids[1])) == 'false' for x in sing), 'R10.2',
              'factorize|SINGULAR->factorized=false', w, 'factorized = false', 'the SINGULAR arm leaves factorized set')
    tr = [x for x in fz.nodes if x.k == 'BinaryOperator' and x.o == '=' and render(strip(x.kids[0])) == 'factorized' and render(strip(x.kids[1])) == 'true']
    rep.check(bool(tr) and all(x.i in set(y.i for y in okarm) for x in tr), 'R10.2', 'factorize|factorized=true only under OK', w, 'factorized = true only in the OK arm',
              'factorized = true is assigned outside the OK arm')
    thr = [x for x in fz.nodes if x.k == 'CXXThrowExpr']
    rep.check(any(any(a.k == 'IfStmt' and 'SINGULAR' in render(a.kid('cond')) for a in fz.ancestors(x)) for x in thr), 'R10.2', 'factorize|throws-when-singular', w,
              'throws when the basis status is SINGULAR', 'factorize() returns normally although the basis is singular')


STAGE = re.compile(r'^v?[sS]olve(L|U|Update)(right|left|Right|Left)')


def multi_rhs(fb, rep):
    rep.rule('R10.3', 'multi-rhs solves: each call hands over the data of one right-hand side, and every right-hand side passes the stages of the single-rhs variant', floor=60)
    variants = {'right': (['vSolveRight4update', 'vSolveRightNoNZ'], ['vSolveRight4update2', 'vSolveRight4update3', 'vSolveRight4update2sparse', 'vSolveRight4update3sparse']),
                'left': (['vSolveLeft', 'vSolveLeftNoNZ'], ['vSolveLeft2', 'vSolveLeft3'])}
    k = 0

    def suffix(t):
        m = re.match(r'^[A-Za-z_]+?(\d?)$', t)
        return m.group(1) if m else None

    def stem(name):
        s = re.sub(r'NoNZ|Forest', '', name)
        s = re.sub(r'\d+$', '', s)
        return re.sub(r'^v', '', s).lower()

    def stage_sets(f):
        """suffix -> set of stage stems applied to the right-hand side with that suffix; also checks argument grouping"""
        out = {}
        nonlocal k
        for n in f.nodes:
            if not (n.k == 'CXXMemberCallExpr' and n.obj() is not None and n.obj().k == 'CXXThisExpr' and STAGE.match(n.short or '')):
                continue
            names = []
            for a in n.args():
                a = strip(a)
                if a.k == 'DeclRefExpr' and a.dk == 'parm':
                    names.append(a.n)
            pnames = set(pn for pn, _ in f.params)
            # a parameter without a numbered sibling (eps when there is no eps2) is shared by all right-hand sides
            own = [x for x in names if not x.startswith('forest') and (re.sub(r'\d$', '', x) + '2' in pnames or not any(re.search(r'\d$', q) for q in pnames))]
            sfx = [suffix(x) for x in own if suffix(x) is not None]
            groups = []
            for s_ in sfx:
                if not groups or groups[-1] != s_:
                    groups.append(s_)
            k += 1
            key = '%s|%s(%s)#%d' % (f.short, n.short, ','.join(names)[:40], k)
            wh = '%s:%d' % (f.file, n.l)
            m = re.search(r'(\d)$', re.sub(r'NoNZ$', '', n.short))
            want = ['', '2', '3'][:int(m.group(1))] if m else None
            if want is not None and 'right' in n.short.lower() and 'L' in n.short[:8]:
                rep.check(groups == want, 'R10.3', key, wh, 'right-hand sides listed in order %s' % groups,
                          'the combined call %s lists the data of the right-hand sides as %s, expected %s: one right-hand side is solved with another one\'s data' % (n.short, groups, want))
                for s_ in want:
                    out.setdefault(s_, set()).add(stem(n.short))
            else:
                rep.check(len(set(groups)) <= 1, 'R10.3', key, wh, 'one right-hand side (%s)' % (groups[0] if groups else 'no suffix'),
                          '%s is called with the data of different right-hand sides (%s): the vectors of one solve are mixed with the counts / tolerances of another' % (n.short, names))
                if groups:
                    out.setdefault(groups[0], set()).add(stem(n.short))
        return out

    for side, (singles, multis) in variants.items():
        ref = None
        for nm in singles:
            f = fb.one(CL + '::' + nm)
            ss = stage_sets(f)
            # vSolveRightNoNZ / vSolveLeftNoNZ use the suffix of their own parameters (rhs2, vec2 for the left one): take their only set
            one = None
            for v in ss.values():
                one = v if one is None else one | v
            if nm == singles[0]:
                ref = one
            rep.check(one == ref, 'R10.3', '%s|stages' % nm, f.where(), 'stages %s' % sorted(one or []), '%s passes the stages %s, %s passes %s' % (nm, sorted(one or []), singles[0], sorted(ref or [])))
        if not ref:
            raise AnalysisBroken('R10.3: no stages found in %s' % singles[0])
        for nm in multis:
            f = fb.one(CL + '::' + nm)
            ss = stage_sets(f)
            n_rhs = int(re.search(r'(\d)(sparse)?$', nm).group(1))
            for s_ in ['', '2', '3'][:n_rhs]:
                got = ss.get(s_, set())
                rep.check(got == ref, 'R10.3', '%s|rhs%s|stages' % (nm, s_ or '1'), f.where(), 'stages %s' % sorted(got),
                          'right-hand side %s of %s passes the stages %s, the single solve passes %s: its result differs from the single solve' % (s_ or '1', nm, sorted(got), sorted(ref)))
    if k < 40:
        raise AnalysisBroken('R10.3: only %d stage calls found' % k)


def setup_state(fb, rep):
    """R10.4: the solve..4update functions of SLUFactor split on the update type.  A semi-sparse result vector is either "set up" (its index
    list is valid and size() is its number of nonzeros) or not; the callers in the simplex (updateFtest, updateTest, the ratio tests) ask the
    vectors for size() without looking at the flag.  Both arms must therefore leave every result vector in the same state (forceSetup, or being
    handed to setup_and_assign, which sets its argument up)."""
    rep.rule('R10.4', 'solve..4update: the product-form arm and the Forrest-Tomlin arm leave each semi-sparse result vector in the same set-up state', floor=6)
    k = 0
    for f in sorted(fb.methods_of('soplex::SLUFactor<double>'), key=lambda g: g.line):
        if not re.match(r'solve\d?[rR]ight4update$', f.short or '') or not f.nodes:
            continue
        vecs = [pn for pn, pt in f.params if 'SSVectorBase' in pt and not pt.startswith('const ')]
        for n in f.nodes:
            if n.k != 'IfStmt' or n.kid('else') is None or 'updateType' not in render(n.kid('cond')) or 'ETA' not in render(n.kid('cond')):
                continue

            def state(arm, v):
                st = None
                for x in arm.walk():
                    if x.k == 'CXXMemberCallExpr' and x.obj() is not None and render(strip(x.obj())) == v and x.short in ('forceSetup', 'unSetup', 'setup'):
                        st = 'set up' if x.short != 'unSetup' else 'not set up'
                    if x.k == 'CXXMemberCallExpr' and x.short == 'setup_and_assign' and x.args() and render(strip(x.args()[0])) == v:
                        st = 'set up'
                return st
            for v in vecs:
                a, b = state(n.kid('then'), v), state(n.kid('else'), v)
                if a is None and b is None:
                    continue
                k += 1
                rep.check(a == b, 'R10.4', '%s(%s)|%s' % (f.short, ','.join(re.sub(r'soplex::|<double>|const ', '', t)[:12] for _, t in f.params)[:50], v), '%s:%d' % (f.file, n.l),
                          'both arms leave %s %s' % (v, a),
                          'with the product-form update %s is left %s, with Forrest-Tomlin %s: the simplex asks it for size() either way (assertion isSetup() in updateFtest / '
                          'updateTest with int:factor_update_type=0; without assertions size() is a count that no longer describes its index list)' % (v, a, b))
    if k < 6:
        raise AnalysisBroken('R10.4: only %d (function, result vector) pairs found' % k)
