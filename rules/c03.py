"""C03 — exact (rational) solve: bracket, provenance, type and objective clauses."""
import re
from engine import render, strip, Graph, Assume, must, reachable_events
from facts import AnalysisBroken, CALL_KINDS
import modifiers as M
import c11

EXPLANATION = (
    "Decides structural necessary conditions of C03 in solverational.hpp: R03.1 transformation brackets - every opener that changes "
    "the stored LPs / basis (_storeLPReal, _lift, _transformEquality, _storeBasis, _transformUnbounded, _transformFeasibility) is closed by "
    "its closer on every normal path (for _storeBasis: before the enclosing loop iteration ends or is left), conditional pairs are opened "
    "and closed under the same parameter, and closers run in reverse order of the openers; R03.2 feasibility-flag provenance - a "
    "feasibility flag becomes true only as the conjunction of exact comparisons `violation <= _rationalFeastol/_rationalOpttol` of the "
    "bounds+sides (primal) or reduced-cost+dual (dual) violations, or as the constant true under an acceptor (successful rational "
    "reconstruction, a rational factorization that reports `optimal`), and OPTIMAL is assigned only under primalFeasible && dualFeasible; "
    "R03.3 type discipline - the violation variables and the tolerances they are compared with are Rational, and no floating-point value "
    "enters a Rational in the functions that compute violations and reconstruct solutions; R03.4 the rational objective value is "
    "objective-times-primal in the user's sense plus the objective offset of the rational LP, at every place where it is computed. NOT "
    "decided: that refinement converges, what _reconstructSolutionRational checks inside, the contents of the transformations, 'every LP "
    "is decided'.")

C = M.CLS


def this_call(name):
    return lambda n: n.k == 'CXXMemberCallExpr' and n.short == name and n.obj() is not None and n.obj().k == 'CXXThisExpr'


def run(fb, rep, tier):
    rep.extra['explanation'] = EXPLANATION
    rep.extra['assumptions'] = ['exceptional paths between an opener and its closer are not covered']
    opt = fb.one(C + '::_optimizeRational')
    rep.rule('R03.1', 'transformation brackets are closed on every normal path, under the same parameter, in reverse order', floor=10)
    w = opt.where()
    # function-level pairs in _optimizeRational
    pairs = [('_storeLPReal', '_restoreLPReal', None), ('_lift', '_project', 'LIFTING'), ('_transformEquality', '_untransformEquality', 'EQTRANS')]
    order = []
    for op, cl, par in pairs:
        ops = [n for n in opt.nodes if this_call(op)(n)]
        cls = [n for n in opt.nodes if this_call(cl)(n)]
        if len(ops) == 1 and len(cls) == 0:
            rep.bad('R03.1', '_optimizeRational|%s->%s|closed' % (op, cl), '%s:%d' % (opt.file, ops[0].l), '%s is called but %s never is: the stored LP stays transformed after the exact solve' % (op, cl))
            continue
        if len(ops) != 1 or len(cls) != 1:
            rep.unrec('R03.1', '_optimizeRational|%s/%s' % (op, cl), w, 'expected one opener and one closer, found %d/%d' % (len(ops), len(cls)))
            continue
        order.append((ops[0], cls[0], op, cl))
        A = Assume(bools={par: True}) if par else None
        g = Graph(opt, A)
        ok, path = g.must_pass(this_call(cl), start=g.block_of(ops[0]))
        # the opener's own block does not count as containing the closer unless it does
        rep.check(ok, 'R03.1', '_optimizeRational|%s->%s|closed' % (op, cl), '%s:%d' % (opt.file, ops[0].l), 'every path from %s to the exit passes %s' % (op, cl),
                  'a normal path leaves _optimizeRational after %s without %s: the stored LP stays transformed (lines %s)' % (op, cl, g.path_lines(path)[:10] if path else ''))
        if par:
            A0 = Assume(bools={par: False})
            ev = reachable_events(opt, A0, lambda n: this_call(op)(n) or this_call(cl)(n))
            rep.check(not ev, 'R03.1', '_optimizeRational|%s/%s|same-parameter' % (op, cl), w, 'neither is reachable with %s off' % par,
                      'with %s off %s is still reachable: opener and closer are not governed by the same parameter' % (par, render(ev[0]) if ev else ''))
    # LIFO: openers in source order a < b  =>  closers in order b' < a'
    for i in range(len(order)):
        for j in range(i + 1, len(order)):
            a, b = order[i], order[j]
            good = (a[0].l < b[0].l) == (a[1].l > b[1].l)
            rep.check(good, 'R03.1', '_optimizeRational|LIFO|%s,%s' % (a[2], b[2]), w, 'closed in reverse order', '%s is opened before %s but also closed before it' % (a[2], b[2]))
    # loop-level pair _storeBasis/_restoreBasis
    g = Graph(opt, None)
    stores = [n for n in opt.nodes if this_call('_storeBasis')(n)]
    if not stores:
        rep.unrec('R03.1', '_optimizeRational|_storeBasis', w, 'no _storeBasis call found')
    for k, s in enumerate(stores):
        sb = g.block_of(s)
        hit = g.blocks_with(this_call('_restoreBasis'))
        r = g.reach(g.succ[sb], avoid=hit)
        bad = None
        if g.exit in r:
            bad = 'the function exit'
        elif sb in r:
            bad = 'the next loop iteration'
        rep.check(bad is None, 'R03.1', '_optimizeRational|_storeBasis#%d|restored' % k, '%s:%d' % (opt.file, s.l), '_restoreBasis on every path to the end of the iteration',
                  'after _storeBasis() %s is reachable without _restoreBasis(): the basis of the feasibility problem stays installed' % bad)
    # helper-level pairs
    for fn, op, cl in (('_performUnboundedIRStable', '_transformUnbounded', '_untransformUnbounded'), ('_performFeasIRStable', '_transformFeasibility', '_untransformFeasibility')):
        f = fb.one(C + '::' + fn)
        ops = [n for n in f.nodes if this_call(op)(n)]
        if len(ops) != 1:
            rep.unrec('R03.1', '%s|%s' % (fn, op), f.where(), 'opener not found')
            continue
        gg = Graph(f, None)
        ok, path = gg.must_pass(this_call(cl), start=gg.block_of(ops[0]))
        rep.check(ok, 'R03.1', '%s|%s->%s|closed' % (fn, op, cl), '%s:%d' % (f.file, ops[0].l), 'closed on every path', 'a normal path returns after %s without %s (lines %s)' % (op, cl, gg.path_lines(path)[:10] if path else ''))
    # representation / ratio tester save-restore around the exact solve is covered by the bracket _storeLPReal/_restoreLPReal

    flags(fb, rep, opt)
    types(fb, rep)
    objective(fb, rep)
    unscaled_entry(fb, rep, opt)
    accepted_has_objective(fb, rep)
    farkas_sense(fb, rep)
    reduced_cost_sign(fb, rep)
    lifted_entries(fb, rep)


def flags(fb, rep, opt):
    rep.rule('R03.2', 'feasibility flags become true only from exact tolerance comparisons of the right violations or under an acceptor; OPTIMAL only under primalFeasible && dualFeasible', floor=12)
    want = {'primalFeasible': ('((boundsViolation <= _rationalFeastol) && (sideViolation <= _rationalFeastol))', {'boundsViolation': '_computeBoundsViolation', 'sideViolation': '_computeSidesViolation'}),
            'dualFeasible': ('((redCostViolation <= _rationalOpttol) && (dualViolation <= _rationalOpttol))', {'redCostViolation': '_computeReducedCostViolation', 'dualViolation': '_computeDualViolation'})}
    n_asg = 0
    for f in fb.methods_of(C):
        if not f.file.endswith('solverational.hpp') or f.short == 'factorizeColumnRational':
            continue
        ordn = {}
        for n in f.nodes:
            if n.k != 'BinaryOperator' or n.o != '=' or f.in_assert(n):
                continue
            l = render(n.kids[0])
            if l not in want:
                continue
            r = render(n.kids[1])
            if r == 'false':
                continue
            n_asg += 1
            ordn[l] = ordn.get(l, 0) + 1
            key = '%s|%s#%d' % (f.short, l, ordn[l])
            wh = '%s:%d' % (f.file, n.l)
            if r == 'true':
                acc = [a for a in f.ancestors(n) if a.k == 'IfStmt' and any(x.i == n.i for x in a.kid('then').walk()) and
                       (re.search(r'_reconstructSolutionRational\(', render(a.kid('cond'))) or render(a.kid('cond')) == 'optimal')]
                rep.check(bool(acc), 'R03.2', key, wh, 'true under the acceptor %s' % (render(acc[0].kid('cond'))[:50] if acc else ''),
                          '%s is set to true without a tolerance comparison and outside an acceptor (successful rational reconstruction / exact factorization reporting optimal)' % l)
            else:
                exp, prov = want[l]
                if r != exp:
                    rep.bad('R03.2', key, wh, '%s = %s: expected %s' % (l, r, exp))
                    continue
                # provenance: each violation variable is an output argument of its _compute...Violation call earlier in this function, on the same solution
                okp = True
                sols = set()
                for var, fn in prov.items():
                    calls = [c for c in f.nodes if this_call(fn)(c) and (c.l, c.i) < (n.l, n.i) and render(c.args()[1]) == var]
                    pidx = [k for k, (pn, pt) in enumerate(f.params) if pn == var]
                    if calls:
                        sols.add(render(calls[-1].args()[0]))
                    elif pidx:
                        # the violation is handed in by the callers: each of them must have computed it just before the call
                        for h in fb.methods_of(C):
                            for c in h.nodes:
                                if c.is_call() and c.u == f.u:
                                    av = render(c.args()[pidx[0]])
                                    cc = [x for x in h.nodes if this_call(fn)(x) and (x.l, x.i) < (c.l, c.i) and render(x.args()[1]) == av]
                                    if not cc:
                                        okp = False
                                    else:
                                        sols.add(render(cc[-1].args()[0]))
                        if not any(c.is_call() and c.u == f.u for h in fb.methods_of(C) for c in h.nodes):
                            okp = False
                    else:
                        okp = False
                rep.check(okp and len(sols) == 1, 'R03.2', key, wh, 'both violations computed from %s' % sorted(sols), 'the violations compared here are not the outputs of %s on one solution (%s)' % (sorted(prov.values()), sorted(sols)))
    if n_asg < 8:
        raise AnalysisBroken('only %d non-false assignments to the feasibility flags found' % n_asg)
    # the compute functions write their output parameter from Rational data
    for fn in ('_computeBoundsViolation', '_computeSidesViolation', '_computeReducedCostViolation', '_computeDualViolation'):
        f = fb.one(C + '::' + fn)
        out = f.params[1]
        rep.check(out[1] == 'Rational &', 'R03.2', fn + '|output-type', f.where(), 'violation returned as Rational&', 'the violation is returned as %s' % out[1])
    # OPTIMAL only under primalFeasible && dualFeasible
    asg = [n for n in opt.nodes if n.k == 'BinaryOperator' and n.o == '=' and render(n.kids[0]) == '_status' and render(n.kids[1]) == 'OPTIMAL']
    if not asg:
        rep.unrec('R03.2', '_optimizeRational|OPTIMAL', opt.where(), 'no assignment _status = OPTIMAL found')
    for k, n in enumerate(asg):
        conds = [render(a.kid('cond')) for a in opt.ancestors(n) if a.k == 'IfStmt' and any(x.i == n.i for x in a.kid('then').walk())]
        rep.check(any(c == '(primalFeasible && dualFeasible)' for c in conds), 'R03.2', '_optimizeRational|OPTIMAL#%d' % k, '%s:%d' % (opt.file, n.l), 'under primalFeasible && dualFeasible',
                  '_status = OPTIMAL is assigned under %s' % conds[:2])
    hs = [n for n in opt.nodes if n.k == 'BinaryOperator' and n.o == '=' and render(n.kids[0]) == '_hasSolRational' and render(n.kids[1]) == 'true']
    for k, n in enumerate(hs):
        conds = ' '.join(render(a.kid('cond')) for a in opt.ancestors(n) if a.k == 'IfStmt')
        rep.check(all(s in conds for s in ('OPTIMAL', 'INFEASIBLE', 'UNBOUNDED')) or '_status' in conds, 'R03.2', '_optimizeRational|hasSolRational#%d' % k, '%s:%d' % (opt.file, n.l), 'a rational solution is announced only for a definite status',
                  '_hasSolRational = true under %s' % conds[:80])


def types(fb, rep):
    rep.rule('R03.3', 'violations and tolerances are Rational; no floating-point value enters a Rational where violations are computed and solutions reconstructed', floor=10)
    cls = fb.classes[C]
    for fld in ('_rationalFeastol', '_rationalOpttol', '_rationalPosInfty', '_rationalNegInfty'):
        t = [x['t'] for x in cls['fields'] if x['n'] == fld]
        rep.check(t == ['Rational'], 'R03.3', 'field|' + fld, cls['file'], 'Rational', '%s has type %s' % (fld, t))
    names = ('_computeBoundsViolation', '_computeSidesViolation', '_computeReducedCostViolation', '_computeDualViolation', '_reconstructSolutionRational',
             '_computePrimalScalingFactor', '_computeDualScalingFactor', '_isRefinementOver', '_checkRefinementProgress', '_ratrecAndOrRatfac')
    for nm in names:
        for f in fb.find(C + '::' + nm):
            conv = [(n, a) for n, a, kind in c11.conversion_sites(f) if kind == 'value' and not (n.o in c11.CMP)]
            # powers of two / scale-factor bookkeeping legitimately convert the parameter MAXSCALEINCR etc.: only data-path functions are judged
            key = '%s(%s)' % (nm, ','.join(M.short_t(t) for _, t in f.params)[:60])
            if nm in ('_computePrimalScalingFactor', '_computeDualScalingFactor', '_isRefinementOver', '_checkRefinementProgress', '_ratrecAndOrRatfac'):
                rep.ok('R03.3', key, f.where(), '%d conversions (scale-factor / progress heuristics, not judged)' % len(conv), nontrivial=False)
                continue
            rep.check(not conv, 'R03.3', key, f.where(), 'no floating value enters a Rational', 'the floating-point value %s enters a Rational through %s' % (render(conv[0][1])[:40] if conv else '', conv[0][0].short if conv else ''))
            loc = [v for v in f.nodes if v.k == 'VarDecl' and re.search(r'[Vv]iol', v.n) and v.t in ('double', 'float', 'long double')]
            rep.check(not loc, 'R03.3', key + '|violation-type', f.where(), 'violation locals are Rational', 'violation variable %s is a %s' % (loc[0].n if loc else '', loc[0].t if loc else ''))


def objective(fb, rep):
    rep.rule('R03.4', 'rational objective value = primal * objective (user sense) + objective offset, wherever it is computed', floor=4)
    k = 0
    for f in fb.methods_of(C):
        if not f.file.endswith('solverational.hpp'):
            continue
        ordn = 0
        for n in f.nodes:
            if n.k in ('CXXOperatorCallExpr', 'BinaryOperator') and n.o == '=' and render(n.kids[0] if n.k == 'BinaryOperator' else n.args()[0]).endswith('._objVal'):
                rhs = render(n.kids[1] if n.k == 'BinaryOperator' else n.args()[1])
                if 'maxObj()' not in rhs:
                    continue
                k += 1
                ordn += 1
                tgt = render(n.kids[0] if n.k == 'BinaryOperator' else n.args()[0])
                blk = n.parent
                while blk is not None and blk.k != 'CompoundStmt':
                    blk = blk.parent
                later = [x for x in (blk.walk() if blk is not None else []) if (x.l, x.i) > (n.l, n.i)]
                neg = any(x.k in ('CXXOperatorCallExpr', 'CompoundAssignOperator') and x.o == '*=' and render(x.args()[0] if x.k == 'CXXOperatorCallExpr' else x.kids[0]) == tgt and
                          any(a.k == 'IfStmt' and 'OBJSENSE_MINIMIZE' in render(a.kid('cond')) for a in f.ancestors(x)) for x in later)
                off = any(x.k in ('CXXOperatorCallExpr', 'CompoundAssignOperator') and x.o == '+=' and render(x.args()[0] if x.k == 'CXXOperatorCallExpr' else x.kids[0]) == tgt and
                          'objOffset()' in render(x.args()[1] if x.k == 'CXXOperatorCallExpr' else x.kids[1]) for x in later)
                key = '%s|objVal#%d' % (f.short, ordn)
                rep.check(neg and off, 'R03.4', key, '%s:%d' % (f.file, n.l), 'sign flipped for minimisation and offset added',
                          'the objective value is %s%s: %s' % (rhs[:40], '' if neg else ' (not negated for minimisation)', 'the objective offset is never added' if not off else 'sign handling missing'))
    if k < 4:
        raise AnalysisBroken('only %d computations of the rational objective value found' % k)


def unscaled_entry(fb, rep, opt):
    """R03.5: the exact solver treats the real LP as the (rounded) user LP.  After a floating-point solve with persistent scaling the real
    LP is scaled (_isRealLPScaled): on every path from the entry of _optimizeRational to the first refinement / floating-point solve call
    the scaling must have been undone (unscaleLPandReloadBasis) when that flag is set."""
    rep.rule('R03.5', 'with a persistently scaled real LP the exact solver undoes the scaling before its first refinement / floating-point solve step', floor=3)
    scaled = Assume(atoms={'_isRealLPScaled': True})
    g = Graph(opt, scaled)
    undo = lambda n: n.k == 'CXXMemberCallExpr' and n.short == 'unscaleLPandReloadBasis'
    steps = [n for n in opt.nodes if n.k == 'CXXMemberCallExpr' and n.obj() is not None and n.obj().k == 'CXXThisExpr'
             and n.short in ('_performOptIRWrapper', '_performOptIRStable', '_performFeasIRStable', '_performUnboundedIRStable', '_solveRealForRational', '_storeLPReal', '_lift', '_transformEquality')]
    if len(steps) < 3:
        raise AnalysisBroken('R03.5: the refinement steps of _optimizeRational were not found')
    reach = g.reach(g.entry)
    for n in steps:
        b = g.block_of(n)
        if b not in reach:
            continue
        ok, path = g.must_pass(undo, to=b)
        rep.check(ok, 'R03.5', '_optimizeRational|%s@%d' % (n.short, n.l), '%s:%d' % (opt.file, n.l), 'unscaleLPandReloadBasis() lies on every path to this step when _isRealLPScaled',
                  '%s is reached with _isRealLPScaled still true (no unscaleLPandReloadBasis on the path, lines %s): the exact solver reloads and shifts a scaled LP as if it were the user\'s' % (n.short, g.path_lines(path)[:8] if path else ''))


def accepted_has_objective(fb, rep):
    """R03.6: in every solve routine of the exact solver that computes the objective value behind its refinement loop, the point where a
    solution is accepted (`if(primalFeasible && dualFeasible)` true arm, or the loop exit that follows _isRefinementOver) leads to that
    computation on every normal path - an accepted solution never leaves the function with a stale objective value."""
    rep.rule('R03.6', 'an accepted solution reaches the objective computation of its solve routine on every path (no early return past it)', floor=2)
    k = 0
    for f in fb.methods_of(C):
        if not f.file.endswith('solverational.hpp') or not f.nodes:
            continue
        objs = [n for n in f.nodes if n.k in ('CXXOperatorCallExpr', 'BinaryOperator') and n.o == '=' and render(n.kids[0] if n.k == 'BinaryOperator' else n.args()[0]).endswith('._objVal')
                and 'maxObj()' in render(n.kids[1] if n.k == 'BinaryOperator' else n.args()[1])]
        if not objs:
            continue
        accepts = [n for n in f.nodes if n.k == 'IfStmt' and re.sub(r'[() ]', '', render(n.kid('cond'))) == 'primalFeasible&&dualFeasible']
        if not accepts:
            continue
        # a solution that is being accepted has been stored as primal and dual feasible
        g = Graph(f, Assume(atoms={'sol._isPrimalFeasible': True, 'sol._isDualFeasible': True, 'primalFeasible': True, 'dualFeasible': True}))
        isobj = lambda x: any(x.i == o.i for o in objs)
        for a in accepts:
            k += 1
            th = a.kid('then')
            first = None
            for x in th.walk():
                b = g.block_of(x)
                if b is not None:
                    first = b
                    break
            if first is None:
                rep.unrec('R03.6', '%s|accept@%d' % (f.short, a.l), '%s:%d' % (f.file, a.l), 'then-arm has no CFG block')
                continue
            ok, path = g.must_pass(isobj, start=first)
            rep.check(ok, 'R03.6', '%s|accept@%d' % (f.short, k), '%s:%d' % (f.file, a.l), 'the objective computation lies on every path from the acceptance to the exit',
                      '%s accepts the solution (tolerances reached) and can leave without computing sol._objVal (lines %s): objValueRational() then reports a stale value' % (f.short, g.path_lines(path)[:8] if path else ''))
    if k < 2:
        raise AnalysisBroken('R03.6: only %d acceptance points found in routines that compute the objective' % k)


def farkas_sense(fb, rep):
    """R03.7: dual multipliers follow the sign convention of the objective sense; the Farkas proof handed to the user does not.  Where
    _untransformFeasibility turns the duals of the auxiliary problem into the Farkas vector, a sense-guarded negation follows."""
    rep.rule('R03.7', 'the Farkas vector taken from the duals of the auxiliary feasibility problem is negated for maximisation', floor=1)
    f = fb.one(C + '::_untransformFeasibility')
    asg = [n for n in f.nodes if n.k in ('CXXOperatorCallExpr', 'BinaryOperator') and n.o == '=' and render(n.kids[0] if n.k == 'BinaryOperator' else n.args()[0]).endswith('._dualFarkas')
           and render(n.kids[1] if n.k == 'BinaryOperator' else n.args()[1]).endswith('._dual')]
    if not asg:
        raise AnalysisBroken('R03.7: _untransformFeasibility does not assign the Farkas vector from the duals')
    for a in asg:
        neg = [x for x in f.nodes if x.k in ('CXXOperatorCallExpr', 'CompoundAssignOperator') and x.o == '*=' and render(x.args()[0] if x.k == 'CXXOperatorCallExpr' else x.kids[0]).endswith('._dualFarkas')
               and x.i > a.i and any(y.k == 'IfStmt' and 'OBJSENSE_MAXIMIZE' in render(y.kid('cond')) for y in f.ancestors(x))]
        rep.check(bool(neg), 'R03.7', '_untransformFeasibility|_dualFarkas = _dual', '%s:%d' % (f.file, a.l), 'negated under OBJSENSE_MAXIMIZE',
                  'the Farkas vector is copied from the dual multipliers without a sense-dependent negation: for maximisation problems it comes back with the opposite signs and fails the Farkas test')


def reduced_cost_sign(fb, rep):
    """R03.8: reduced costs are objective minus dual activity (c - A^T y) wherever the exact solver recomputes them.  Two shapes occur:
    (a) vector form: getObj(X) followed by subDualActivity(y, X) on the same X; (b) entry form: X[i] = y * col(i); X[i] -= obj(i); and then
    exactly one negation X[i] *= -1 on every path through the rest of the block (counted over the structured statements)."""
    rep.rule('R03.8', 'recomputed reduced costs are objective minus dual activity: getObj + subDualActivity, or y*col - obj negated exactly once on every path', floor=5)
    k = 0
    for f in sorted(fb.funcs.values(), key=lambda g: (g.file, g.line)):
        if not f.file.endswith('solverational.hpp') or not f.name.startswith(C + '::') or not f.nodes:
            continue
        fn = f.name.replace('soplex::', '')[:60]
        # (a)
        for n in f.nodes:
            if n.k == 'CXXMemberCallExpr' and n.short == 'getObj' and len(n.args()) == 1 and '_redCost' in render(n.args()[0]):
                X = render(strip(n.args()[0]))
                par = f.parent_of(n)
                while par is not None and par.k != 'CompoundStmt':
                    par = f.parent_of(par)
                after = [x for x in (par.walk() if par is not None else []) if x.i > n.i and x.k == 'CXXMemberCallExpr' and x.short in ('subDualActivity', 'addDualActivity')
                         and len(x.args()) == 2 and render(strip(x.args()[1])) == X]
                k += 1
                rep.check(bool(after) and after[0].short == 'subDualActivity', 'R03.8', '%s|%s = obj - A^T y' % (fn, X), '%s:%d' % (f.file, n.l), 'getObj then subDualActivity',
                          'after getObj(%s) the dual activity is %s: the reduced costs are not objective minus dual activity' % (X, 'added (addDualActivity)' if after else 'never subtracted'))
        # (b)
        for n in f.nodes:
            if not (n.k in ('CXXOperatorCallExpr', 'CompoundAssignOperator') and ((n.short or '') == 'operator-=' or n.o == '-=')):
                continue
            ks = n.args() if n.k == 'CXXOperatorCallExpr' else n.kids
            if len(ks) != 2 or '_redCost[' not in render(ks[0]) or 'objRational(' not in render(ks[1]):
                continue
            X = render(strip(ks[0]))
            st = n
            par = f.parent_of(st)
            while par is not None and par.k != 'CompoundStmt':
                st = par
                par = f.parent_of(par)
            if par is None:
                continue
            sibs = par.kids
            pos = [i for i, x in enumerate(sibs) if x.i == st.i][0]
            prev = render(sibs[pos - 1]) if pos > 0 else ''
            k += 1
            key = '%s|%s = -(y*col - obj)' % (fn, X)
            if not (X in prev and '* colVectorRational(' in prev):
                rep.unrec('R03.8', key, '%s:%d' % (f.file, n.l), 'the statement before `%s -= obj` is not `%s = y * col`' % (X, X))
                continue

            def negs(s_):
                """set of possible numbers of negations of X over the paths through statement s_"""
                s_ = strip(s_)
                if s_.k == 'CompoundStmt':
                    acc = {0}
                    for c_ in s_.kids:
                        acc = set(a + b for a in acc for b in negs(c_))
                    return acc
                if s_.k == 'IfStmt':
                    a = negs(s_.kid('then')) if s_.kid('then') is not None else {0}
                    b = negs(s_.kid('else')) if s_.kid('else') is not None else {0}
                    return a | b
                r = render(s_)
                if r.replace(' ', '') in ('(%s*=-1)' % X.replace(' ', ''), '%s*=-1' % X.replace(' ', '')) or (X in r and '*= -1' in r and len(r) < len(X) + 12):
                    return {1}
                return {0}
            tot = {0}
            for c_ in sibs[pos + 1:]:
                tot = set(a + b for a in tot for b in negs(c_))
            rep.check(tot == {1}, 'R03.8', key, '%s:%d' % (f.file, n.l), 'negated exactly once on every path',
                      'after %s = y*col - obj the value is negated %s times depending on the path: where it is not negated exactly once the reduced cost has the wrong sign' % (X, sorted(tot)))
    if k < 5:
        raise AnalysisBroken('R03.8: only %d reduced-cost recomputations found' % k)


def lifted_entries(fb, rep):
    """R03.9: the lifting transformation edits the matrix of the user's LPs in place: _lift() sets entries of original columns to zero (they move
    to lifting columns).  Removing the lifting rows and columns in _project() does not bring them back; for each LP whose entries _lift() zeroes,
    _project() must write entries of that LP again (changeElement), and _lift() must record what it zeroed in members that _project() reads."""
    rep.rule('R03.9', 'for each LP whose matrix entries _lift() zeroes in place, _project() writes entries of that LP back from what _lift() recorded', floor=2)
    lift = fb.one(C + '::_lift')
    proj = fb.one(C + '::_project')

    def ce(f):
        out = {}
        for n in f.nodes:
            if n.k == 'CXXMemberCallExpr' and n.short == 'changeElement' and n.obj() is not None:
                out.setdefault(render(strip(n.obj())), []).append(n)
        return out
    zeroed = {lp: [n for n in ns if len(n.args()) >= 3 and re.fullmatch(r'(Rational\()?\(?0(\.0)?\)?\)?', render(strip(n.args()[2])).replace('(double)', ''))] for lp, ns in ce(lift).items()}
    zeroed = {lp: ns for lp, ns in zeroed.items() if ns}
    if len(zeroed) < 2:
        raise AnalysisBroken('R03.9: _lift() zeroes entries of %d LPs, expected the rational and the real one' % len(zeroed))
    back = ce(proj)
    # members written in _lift and read in _project
    wl = set(n.short for n in lift.nodes if n.k == 'MemberExpr' and n.short and n.short.startswith('_lift'))
    rp = set(n.short for n in proj.nodes if n.k == 'MemberExpr' and n.short and n.short.startswith('_lift'))
    for lp, ns in sorted(zeroed.items()):
        ok = lp in back and bool(wl & rp)
        rep.check(ok, 'R03.9', '_lift/_project|%s' % lp, '%s:%d' % (lift.file, ns[0].l), '_project() writes entries of %s back (recorded in %s)' % (lp, sorted(wl & rp)[:3]),
                  '_lift() zeroes matrix entries of %s (line %d) and _project() never writes an entry of it: after an exact solve with lifting the user\'s LP has lost these entries' % (lp, ns[0].l))
