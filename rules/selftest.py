"""Thorough tier: tests the checker both ways on variants of /repo's *current working tree*.

For each patch in /verif/selftest/<ID>/<name>__<rule>.patch: copy /repo/src (and the generated config.h) to a scratch
directory outside /repo and /verif, apply the patch there, run the property's rules on the variant (a sub-process of
./check with SPX_REPO pointing to the scratch copy and its evidence redirected), and require that the named rule reports
a violation.  The scratch copy is removed afterwards.

Outcomes per patch: 'fires' (expected), 'silent' (the rule went blind: ANALYSIS-BROKEN), 'skipped' (the patch does not
apply to the current tree - e.g. because the tree under test was edited at that place; noted, not fatal)."""
import glob
import json
import os
import shutil
import subprocess
import tempfile

VERIF = os.path.dirname(os.path.dirname(os.path.abspath(__file__)))


def run(prop, repo='/repo'):
    patches = sorted(glob.glob(os.path.join(VERIF, 'selftest', prop, '*.patch')))
    results = []
    if not patches:
        return results
    base = tempfile.mkdtemp(prefix='spxverif.', dir=os.environ.get('TMPDIR', '/tmp'))
    try:
        for p in patches:
            name = os.path.basename(p)[:-len('.patch')]
            rule = name.split('__')[-1]
            scratch = os.path.join(base, 'v')
            if os.path.exists(scratch):
                shutil.rmtree(scratch)
            os.makedirs(os.path.join(scratch, '_build', 'soplex'))
            shutil.copytree(os.path.join(repo, 'src'), os.path.join(scratch, 'src'))
            cfg = os.path.join(repo, '_build', 'soplex', 'config.h')
            if not os.path.exists(cfg):
                cfg = os.path.join(VERIF, '.cache', 'cfgbuild', 'soplex', 'config.h')
            shutil.copy(cfg, os.path.join(scratch, '_build', 'soplex', 'config.h'))
            r = subprocess.run(['patch', '-p1', '-s', '-f', '-d', scratch, '-i', p], capture_output=True, text=True)
            if r.returncode != 0:
                results.append({'patch': name, 'expected_rule': rule, 'outcome': 'skipped', 'why': 'does not apply to the current tree'})
                continue
            env = dict(os.environ, SPX_REPO=scratch, SPX_EVIDENCE_DIR=os.path.join(base, 'ev'))
            env.pop('VERIF_TIER', None)
            c = subprocess.run([os.path.join(VERIF, 'check'), prop, '--tier', 'quick'], capture_output=True, text=True, env=env, cwd=VERIF)
            fired = [l.strip() for l in c.stdout.splitlines() if l.strip().startswith('violated:') and (' %s ' % rule) in l]
            if c.returncode == 1 and fired:
                results.append({'patch': name, 'expected_rule': rule, 'outcome': 'fires', 'report': fired[0].replace(scratch, '/repo')[:300]})
            else:
                other = [l.strip() for l in c.stdout.splitlines() if l.strip().startswith(('violated:', 'ANALYSIS-BROKEN'))][:2]
                results.append({'patch': name, 'expected_rule': rule, 'outcome': 'silent', 'exit': c.returncode, 'output': [o.replace(scratch, '/repo')[:200] for o in other]})
    finally:
        shutil.rmtree(base, ignore_errors=True)
    return results
