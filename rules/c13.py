"""C13 — file readers survive arbitrary input (bounded-buffer, cleanup, clean-failure, exception and EOF clauses)."""
import re
from engine import render, strip, Graph, Assume, must, reachable_events, post_dominators
from facts import AnalysisBroken, CALL_KINDS
import modifiers as M

EXPLANATION = (
    "Decides structural necessary conditions of C13 in the reader code (LP, MPS, basis, settings readers and NameSet): R13.1 every "
    "fixed-size char buffer is used only through bounded idioms - written by a bounded primitive with a limit <= its extent, by a helper "
    "whose own limit fits, at a constant index inside the extent, or read-only; a pointer walk or index copy that is terminated only by "
    "its source is reported (positive control); R13.2 cleanup pairing - every object created with placement new in spx_alloc'ed memory is "
    "destroyed before its memory is released, and every spx_alloc'ed local buffer is released on every normal exit (the `goto "
    "syntax_error` idiom is a common exit); R13.3 clean failure - a failed LP read clears the LP it may have half built, a failed basis "
    "read leaves no basis; R13.4 no exception escapes the text front ends - every throwing conversion (std::stoi/stod/stoul...) reachable "
    "from the settings parsers is inside a try block (positive control); R13.5 a failed stream read leaves the reading loop - the test "
    "that follows a read is evaluated under the end-of-file state (good=false, eof=true, fail=true) and must take its exit arm; R13.6 a "
    "character pointer is never advanced beyond the terminator it was just found on; R13.9 asserted input predicates - every call of a "
    "reader helper that asserts pred(param) on entry (LPFreadColName, LPFreadValue, ...) is unreachable when pred(arg) is false; R13.10 "
    "MPS fields - a field of the current MPS line is used as a string only where a null test of that field has been passed since "
    "readLine(); R13.13 a scalar local filled by a stream read is initialised or the read is tested; R13.11 no assertion tests the character class of input text, and no section reader asserts a relation between the LP numbers it is filling in from the file (positive controls). NOT decided: memory safety in general (data-flow of "
    "uninitialised values, integer overflow in index arithmetic, leaks on exceptional paths): a fuzzer is the natural tool there.")

C = M.CLS
READER_FILES = ('spxlpbase_real.hpp', 'spxlpbase_rational.hpp', 'mpsinput.cpp', 'mpsinput.h', 'nameset.cpp', 'spxbasis.hpp', 'spxfileio.hpp')
READONLY_CALLEES = {'strcmp', 'strncmp', 'strlen', 'strchr', 'strstr', 'atof', 'atoi', 'strtol', 'strtod', 'fopen', 'add', 'number', 'has', 'entryIgnored', 'operator<<',
                    'ratFromString', 'readStringRational', 'strncasecmp', 'strcasecmp', 'isdigit', 'isspace', '_parseSettingsLine', 'setProbName', 'setObjName', 'LPFhasKeyword', 'debug'}


def reader_functions(fb):
    out = []
    for f in fb.funcs.values():
        if f.name.startswith('verif_ctl::'):
            continue
        base = f.file.rsplit('/', 1)[-1]
        if base in READER_FILES:
            out.append(f)
        elif base == 'soplex.hpp' and f.short in ('loadSettingsFile', 'parseSettingsString', '_parseSettingsLine', '_readFileReal', '_readFileRational', 'readBasisFile', 'readFile'):
            out.append(f)
    return out


def const_int(n):
    n = strip(n)
    if n is None:
        return None
    if n.k == 'IntegerLiteral':
        return int(n.v)
    if n.k == 'DeclRefExpr' and n.dk == 'enum' and n.v is not None:
        return int(n.v)
    if n.k == 'UnaryExprOrTypeTraitExpr' and n.v is not None:
        return int(n.v)
    if n.k == 'BinaryOperator' and n.o in ('-', '+'):
        a, b = const_int(n.kids[0]), const_int(n.kids[1])
        if a is not None and b is not None:
            return a - b if n.o == '-' else a + b
    if n.k in ('ImplicitCastExpr', 'CStyleCastExpr', 'CXXStaticCastExpr') and n.c:
        return const_int(n.kids[0])
    return None


def helper_limit(fb, callee_u, argno, call_args=None):
    """limit with which a helper writes into the char* parameter #argno (spxSnprintf(buf, N, ...)), or None; a limit that is the helper's
    own size parameter is evaluated with the caller's argument (a constant or sizeof of the array)"""
    g = fb.funcs.get(callee_u)
    if g is None or argno >= len(g.params):
        return None
    pname = g.params[argno][0]
    lim = None
    for n in g.nodes:
        if n.k == 'CallExpr' and n.short == 'spxSnprintf':
            a = n.args()
            if render(a[0]) == pname:
                v = const_int(a[1])
                if v is None and call_args is not None:
                    sz = strip(a[1])
                    if sz.k == 'DeclRefExpr' and sz.dk == 'parm':
                        k = [i for i, (pn, pt) in enumerate(g.params) if pn == sz.n]
                        if k and k[0] < len(call_args):
                            v = const_int(call_args[k[0]])
                if v is None:
                    return None
                lim = max(lim or 0, v)
    return lim


def index_helper_limit(fb, call, argno, args):
    """for a helper that writes buf[i] with i bounded by constants or by its own int parameters (evaluated with the
    caller's constant arguments): one more than the largest index written, or None"""
    g = fb.funcs.get(call.u)
    if g is None or argno >= len(g.params):
        return None
    pname = g.params[argno][0]
    consts = {}
    for k, (pn, pt) in enumerate(g.params):
        if pt == 'int' and k < len(args):
            v = const_int(args[k])
            if v is not None:
                consts[pn] = v
    hi = None
    for n in g.nodes:
        if n.k == 'ArraySubscriptExpr' and render(strip(n.kids[0])) == pname:
            gp = n.parent
            is_write = gp is not None and gp.k == 'BinaryOperator' and gp.o == '=' and any(x.i == n.i for x in strip(gp.kids[0]).walk())
            if not is_write:
                continue
            idx = strip(n.kids[1])
            v = const_int(idx)
            if v is None and idx.k == 'DeclRefExpr':
                # loop variable: i < C  or  i <= param
                for a in g.ancestors(n):
                    if a.k == 'ForStmt' and a.kid('cond') is not None:
                        c = strip(a.kid('cond'))
                        if c.k == 'BinaryOperator' and c.o in ('<', '<=') and render(strip(c.kids[0])) == idx.n:
                            r = strip(c.kids[1])
                            b = const_int(r)
                            if b is None and r.k == 'DeclRefExpr' and r.n in consts:
                                b = consts[r.n]
                            if b is not None:
                                v = b - 1 if c.o == '<' else b
            if v is None:
                return None
            hi = v if hi is None else max(hi, v)
    return None if hi is None else hi + 1


def run(fb, rep, tier):
    rep.extra['explanation'] = EXPLANATION
    rf = reader_functions(fb)
    if len(rf) < 60:
        raise AnalysisBroken('only %d reader functions found' % len(rf))
    rep.extra['reader_functions'] = len(rf)
    buffers(fb, rep, rf)
    cleanup(fb, rep, rf)
    cosized(fb, rep, rf)
    capacity(fb, rep)
    clean_failure(fb, rep)
    exceptions(fb, rep)
    eof(fb, rep, rf)
    terminator(fb, rep, rf)
    preconditions(fb, rep, rf)
    null_fields(fb, rep, rf)
    input_asserts(fb, rep, rf)
    scan_loops(fb, rep, rf)
    read_targets(fb, rep, rf)
    growth_tests(fb, rep, rf)


# ---------------------------------------------------------------------------------------------------
def classify_use(fb, f, arr, n, ext):
    """('ok'|'bad'|'unknown', detail) for one reference n to the fixed-size char array arr"""
    p = n.parent
    while p is not None and p.k in ('ImplicitCastExpr', 'ParenExpr'):
        p = p.parent
    if p is None:
        return 'unknown', 'no context'
    if p.k == 'UnaryExprOrTypeTraitExpr':
        return 'ok', 'sizeof'
    if p.k == 'ArraySubscriptExpr':
        idx = strip(p.kids[1])
        gp = p.parent
        while gp is not None and gp.k in ('ImplicitCastExpr',):
            gp = gp.parent
        is_write = gp is not None and gp.k in ('BinaryOperator', 'CompoundAssignOperator') and gp.o.endswith('=') and gp.o not in ('==', '!=', '<=', '>=') and any(x.i == p.i for x in strip(gp.kids[0]).walk())
        if not is_write:
            return 'ok', 'element read'
        v = const_int(idx)
        if v is not None:
            return ('ok', 'constant index %d' % v) if 0 <= v < ext else ('bad', 'constant index %d outside extent %d' % (v, ext))
        # index variable: bounded by an enclosing loop condition / guard that compares it with a constant <= ext
        names = [x.n for x in idx.walk() if x.k == 'DeclRefExpr' and x.dk in ('local', 'parm')]
        for a in f.ancestors(p):
            if a.k in ('ForStmt', 'WhileStmt', 'IfStmt'):
                c = a.kid('cond')
                if c is None:
                    continue
                for cmpn in c.walk():
                    if cmpn.k == 'BinaryOperator' and cmpn.o in ('<', '<='):
                        l, r = strip(cmpn.kids[0]), strip(cmpn.kids[1])
                        if l.k == 'DeclRefExpr' and l.n in names:
                            b = const_int(r)
                            if b is not None and b + (1 if cmpn.o == '<=' else 0) <= ext:
                                return 'ok', 'index %s bounded by %s %d' % (l.n, cmpn.o, b)
        # index bounded by the length of the string that is already inside this very buffer: i < len, len = strlen(buf)
        for a in f.ancestors(p):
            if a.k in ('ForStmt', 'WhileStmt') and a.kid('cond') is not None:
                for cmpn in a.kid('cond').walk():
                    if cmpn.k == 'BinaryOperator' and cmpn.o == '<' and strip(cmpn.kids[0]).k == 'DeclRefExpr' and strip(cmpn.kids[0]).n in names:
                        r = strip(cmpn.kids[1])
                        rt = render(r)
                        if r.k == 'DeclRefExpr' and r.dk == 'local':
                            for d in f.nodes:
                                if ((d.k == 'VarDecl' and d.n == r.n and d.c) or (d.k == 'BinaryOperator' and d.o == '=' and render(d.kids[0]) == r.n)) and d.l <= a.l:
                                    rt = render(d.kids[0] if d.k == 'VarDecl' else d.kids[1])
                        if 'strlen(%s)' % arr.n in rt:
                            return 'ok', 'index bounded by strlen(%s)' % arr.n
        return 'bad', 'element write %s[%s] whose index is bounded only by the source (no comparison with a bound <= %d)' % (arr.n, render(idx), ext)
    if p.k == 'UnaryOperator' and p.o == '*':
        return 'ok', 'first element'
    if p.is_call():
        args = p.kids if p.k in ('CXXConstructExpr', 'CXXTemporaryObjectExpr') else p.args()
        pos = [i for i, a in enumerate(args) if any(x.i == n.i for x in a.walk())]
        pos = pos[0] if pos else None
        nm = p.short or ''
        if p.k == 'CXXOperatorCallExpr' and p.o in ('<<', '==', '!='):
            return 'ok', 'read-only (%s)' % p.o
        if nm in ('spxSnprintf', 'snprintf', 'getline', 'strncpy', 'memset', 'fgets', 'read'):
            if pos != 0:
                return 'ok', 'source argument of ' + nm
            lim = const_int(args[1] if nm not in ('strncpy', 'memset') else args[2])
            if lim is None:
                return 'bad', '%s writes into %s with the non-constant limit %s' % (nm, arr.n, render(args[1] if nm not in ('strncpy', 'memset') else args[2]))
            return ('ok', '%s limit %d <= %d' % (nm, lim, ext)) if lim <= ext else ('bad', '%s writes up to %d bytes into %s[%d]' % (nm, lim, arr.n, ext))
        if nm in READONLY_CALLEES or nm.startswith('operator'):
            return 'ok', 'read-only argument of ' + nm
        if nm in ('strcpy', 'strcat', 'sprintf', 'gets', 'sscanf', 'vsprintf'):
            return ('bad', 'unbounded %s into %s[%d]' % (nm, arr.n, ext)) if pos == 0 else ('ok', 'source argument')
        lim = helper_limit(fb, p.u, pos, args) if pos is not None else None
        if lim is None and pos is not None:
            lim = index_helper_limit(fb, p, pos, args)
        if lim is not None:
            return ('ok', 'helper %s writes at most %d <= %d' % (nm, lim, ext)) if lim <= ext else ('bad', 'helper %s writes up to %d bytes into %s[%d]' % (nm, lim, arr.n, ext))
        g = fb.funcs.get(p.u)
        if g is not None and pos is not None and pos < len(g.params) and g.params[pos][1].startswith('const char'):
            return 'ok', 'passed as const char* to ' + nm
        return 'unknown', 'passed to %s (argument %s)' % (nm, pos)
    if p.k == 'VarDecl' or (p.k == 'BinaryOperator' and p.o == '='):
        # alias: char* t = buf;  -> writes through the alias must be bounded
        alias = p.n if p.k == 'VarDecl' else render(p.kids[0])
        writes = []
        for x in f.nodes:
            if x.k in ('BinaryOperator', 'CompoundAssignOperator') and x.o == '=':
                lt = render(strip(x.kids[0]))
                if lt in ('*%s++' % alias, '*%s' % alias, '*(%s++)' % alias) or lt.startswith(alias + '['):
                    writes.append(x)
        data_writes = [x for x in writes if render(x.kids[1]) not in ('0', "'\\0'")]
        if data_writes:
            return 'bad', 'pointer walk through %s (alias %s): `%s` is terminated only by its source' % (arr.n, alias, render(data_writes[0])[:60])
        return 'ok', 'alias %s used for in-place tokenising (only terminators are written)' % alias
    if p.k == 'ReturnStmt':
        return 'ok', 'returned'
    if p.k in ('BinaryOperator',) and p.o in ('==', '!=', '+', '-'):
        return 'ok', 'address arithmetic / comparison'
    if p.k == 'ConditionalOperator' or p.k == 'CStyleCastExpr':
        return 'ok', 'value use'
    return 'unknown', 'context ' + p.k


def buffers(fb, rep, rf):
    rep.rule('R13.1', 'fixed-size char buffers are used only through bounded idioms', floor=60)
    nb = 0
    ctl = False
    funcs = list(rf) + [f for f in fb.funcs.values() if f.name.startswith('verif_ctl::')]
    # also the class-member buffers of MPSInput
    for f in funcs:
        arrs = {n.u: n for n in f.nodes if n.k == 'VarDecl' and n.x.get('ext') and n.t.startswith('char[')}
        fields = {}
        if f.cls and f.cls in fb.classes:
            for fl in fb.classes[f.cls]['fields']:
                m = re.match(r'^char\[(\d+)\]$', fl['t'])
                if m:
                    fields[fl['u']] = (fl['n'], int(m.group(1)))
        seen = {}
        for n in f.nodes:
            arr = None
            if n.k == 'DeclRefExpr' and n.u in arrs:
                arr, ext, nm = arrs[n.u], arrs[n.u].x['ext'], arrs[n.u].n
            elif n.k == 'MemberExpr' and n.dk == 'field' and n.u in fields:
                nm, ext = fields[n.u]

                class A(object):
                    pass
                arr = A()
                arr.n = nm
            if arr is None or f.in_assert(n):
                continue
            v, d = classify_use(fb, f, arr, n, ext)
            key = '%s|%s[%d]|%s' % (f.name.replace('soplex::', '')[:60], nm, ext, re.sub(r'\d+', '#', d)[:50])
            if key in seen:
                continue
            seen[key] = 1
            if f.name.startswith('verif_ctl::'):
                if v == 'bad' and f.short == 'unbounded_copy':
                    ctl = True
                continue
            nb += 1
            wh = '%s:%d' % (f.file, n.l)
            if v == 'ok':
                rep.ok('R13.1', key, wh, d)
            elif v == 'bad':
                rep.bad('R13.1', key, wh, d + ': input longer than the buffer writes past its end')
            else:
                rep.unrec('R13.1', key, wh, d)
    if not ctl:
        raise AnalysisBroken('R13.1 positive control (verif_ctl::unbounded_copy) did not fire')
    rep.ok('R13.1', 'control|unbounded_copy', 'units/controls.cpp', 'positive control fires', nontrivial=False)
    if nb < 50:
        raise AnalysisBroken('only %d buffer uses classified' % nb)


# ---------------------------------------------------------------------------------------------------
def cleanup(fb, rep, rf):
    rep.rule('R13.2', 'placement-new objects are destroyed before their memory is freed; spx_alloc\'ed local buffers are freed on every normal exit', floor=12)
    for f in rf:
        # locals that receive a placement new
        pl = {}
        for n in f.nodes:
            if n.k == 'CXXNewExpr' and n.x.get('pl'):
                for a in f.ancestors(n):
                    if a.k == 'BinaryOperator' and a.o == '=':
                        t = strip(a.kids[0])
                        if t.k == 'DeclRefExpr' and t.dk == 'local':
                            pl[t.n] = n
                        break
        frees = [n for n in f.nodes if n.k == 'CallExpr' and n.short == 'spx_free']
        for name, newn in sorted(pl.items()):
            fs = [x for x in frees if render(x.args()[0]) == name]
            if not fs:
                rep.bad('R13.2', '%s|%s|never-freed' % (f.short, name), '%s:%d' % (f.file, newn.l), 'object created with placement new in `%s` is never released' % name)
                continue
            for k, x in enumerate(fs):
                # a destructor call on the same pointer must precede the free in the same compound statement (or dominate it)
                blk = x.parent
                while blk is not None and blk.k != 'CompoundStmt':
                    blk = blk.parent
                dt = []
                scope = blk.walk() if blk is not None else f.nodes
                for y in scope:
                    if y.k == 'CXXMemberCallExpr' and (y.short or '').startswith('~') and y.obj() is not None and render(y.obj()) == name and (y.l, y.i) < (x.l, x.i):
                        dt.append(y)
                if not dt and blk is not None:
                    # single-statement if: the destructor must be in the same if-body; none found -> look at the enclosing compound only when the free is unconditional
                    pass
                rep.check(bool(dt), 'R13.2', '%s|%s|destroy-before-free#%d' % (f.short, name, k), '%s:%d' % (f.file, x.l), '%s->~T() precedes spx_free(%s)' % (name, name),
                          'spx_free(%s) releases the memory of an object created with placement new without calling its destructor: everything the object owns leaks' % name)
        # spx_alloc'ed plain buffers
        allocs = {}
        for n in f.nodes:
            if n.k == 'CallExpr' and n.short == 'spx_alloc' and not f.in_assert(n):
                t = strip(n.args()[0])
                if t.k == 'DeclRefExpr' and t.dk == 'local' and t.n not in pl:
                    allocs.setdefault(t.n, n)
        if allocs and f.blocks:
            g = Graph(f, None)
            for name, an in sorted(allocs.items()):
                ab = g.block_of(an)
                ok, path = g.must_pass(lambda x: x.k == 'CallExpr' and x.short == 'spx_free' and render(x.args()[0]) == name, start=ab)
                # the allocating block itself may contain the free (same block, later) - must_pass treats start in hit as ok
                rep.check(ok, 'R13.2', '%s|%s|freed-on-every-exit' % (f.short, name), '%s:%d' % (f.file, an.l), 'spx_free(%s) on every normal path to the exit' % name,
                          'buffer `%s` allocated with spx_alloc is not released on a normal path to the exit (lines %s)' % (name, g.path_lines(path)[:8] if path else ''))


def cosized(fb, rep, rf):
    rep.rule('R13.7', 'buffers allocated with one size variable are all re-sized when that size grows', floor=2)
    k = 0
    for f in rf:
        by_size = {}
        for n in f.nodes:
            if n.k == 'CallExpr' and n.short in ('spx_alloc', 'spx_realloc') and len(n.args()) == 2:
                sz = strip(n.args()[1])
                tg = strip(n.args()[0])
                if sz.k == 'DeclRefExpr' and sz.dk == 'local' and tg.k == 'DeclRefExpr' and tg.dk == 'local':
                    by_size.setdefault(sz.n, {'alloc': set(), 'realloc': set(), 'node': n})[('alloc' if n.short == 'spx_alloc' else 'realloc')].add(tg.n)
        for sz, d in sorted(by_size.items()):
            if len(d['alloc']) < 2 or not d['realloc']:
                continue
            k += 1
            miss = sorted(d['alloc'] - d['realloc'])
            rep.check(not miss, 'R13.7', '%s|size %s|%s' % (f.short, sz, ','.join(sorted(d['alloc']))), '%s:%d' % (f.file, d['node'].l), 'all of %s are re-sized with %s' % (sorted(d['alloc']), sz),
                      '%s were allocated with size %s, which grows with the input, but only %s are re-sized: a line longer than the initial size overflows %s' % (sorted(d['alloc']), sz, sorted(d['realloc']), miss))
    if k < 2:
        raise AnalysisBroken('only %d groups of co-sized buffers found' % k)


def linear(e):
    """{'terms': {rendered: coeff}, 'const': c} for sums of calls/variables and integer constants, else None"""
    e = strip(e)
    if e is None:
        return None
    v = const_int(e)
    if v is not None:
        return {'terms': {}, 'const': v}
    if e.k == 'BinaryOperator' and e.o in ('+', '-'):
        a, b = linear(e.kids[0]), linear(e.kids[1])
        if a is None or b is None:
            return None
        sg = 1 if e.o == '+' else -1
        t = dict(a['terms'])
        for kk, vv in b['terms'].items():
            t[kk] = t.get(kk, 0) + sg * vv
        return {'terms': {kk: vv for kk, vv in t.items() if vv}, 'const': a['const'] + sg * b['const']}
    if e.k in ('CXXFunctionalCastExpr', 'CStyleCastExpr', 'CXXStaticCastExpr', 'ImplicitCastExpr') and e.c:
        return linear(e.kids[0])
    return {'terms': {render(e): 1}, 'const': 0}


def capacity(fb, rep):
    rep.rule('R13.8', 'NameSet::add grows the name memory whenever the bytes it is about to consume do not fit', floor=2)
    fs = [g for g in fb.find('soplex::NameSet::add', nparams=2) if 'DataKey' in g.params[0][1] and g.params[1][1].startswith('const char')]
    if len(fs) != 1:
        raise AnalysisBroken('NameSet::add(DataKey&, const char*) not found')
    f = fs[0]
    # consumption: memused += L + k
    cons = [n for n in f.nodes if n.k == 'CompoundAssignOperator' and n.o == '+=' and render(n.kids[0]) == 'memused']
    guards = [n for n in f.nodes if n.k == 'IfStmt' and 'memMax()' in render(n.kid('cond')) and 'memSize()' in render(n.kid('cond'))]
    if len(cons) != 1 or not guards:
        rep.unrec('R13.8', 'NameSet::add|shape', f.where(), 'consumption / capacity guard not found')
        return
    need = linear(cons[0].kids[1])
    # the copy into the reserved bytes uses exactly that many bytes as its limit
    cp = [n for n in f.nodes if n.k == 'CallExpr' and n.short == 'spxSnprintf' and strip(n.args()[0]).k == 'DeclRefExpr' and strip(n.args()[0]).dk == 'local']
    for k, n in enumerate(cp):
        lim = linear(n.args()[1])
        same = lim is not None and need is not None and lim['terms'] == need['terms'] and lim['const'] == need['const']
        rep.check(same, 'R13.8', 'NameSet::add|copy-limit#%d' % k, '%s:%d' % (f.file, n.l), 'the name is copied with the limit %s = bytes reserved' % render(n.args()[1]),
                  'the name is copied with the limit %s although %s bytes were reserved for it: longer names are silently truncated (or shorter limits overflow)' % (render(n.args()[1]), render(cons[0].kids[1])))
    for k, g in enumerate(guards):
        c = strip(g.kid('cond'))
        if c.k != 'BinaryOperator' or c.o not in ('>=', '>'):
            rep.unrec('R13.8', 'NameSet::add|guard#%d' % k, '%s:%d' % (f.file, g.l), 'guard %s not understood' % render(c))
            continue
        lhs, rhs = linear(c.kids[0]), linear(c.kids[1])
        if need is None or lhs is None or rhs is None or rhs['terms'] != {'memMax()': 1}:
            rep.unrec('R13.8', 'NameSet::add|guard#%d' % k, '%s:%d' % (f.file, g.l), 'guard %s not linear' % render(c))
            continue
        # guard fires iff  memSize + X + c0 (>=|>) memMax ; bytes needed: memSize + need <= memMax must hold when it does not fire
        x = dict(lhs['terms'])
        x.pop('memSize()', None)
        same = x == need['terms']
        slack = lhs['const'] + (1 if c.o == '>=' else 0)      # guard false  =>  memSize + X + slack <= memMax
        ok = same and slack >= need['const']
        rep.check(ok, 'R13.8', 'NameSet::add|guard#%d' % k, '%s:%d' % (f.file, g.l), 'not growing implies memSize + len + %d <= memMax, %d bytes are consumed' % (slack, need['const']),
                  'the guard `%s` lets through the case in which exactly %d byte(s) are missing: %s consumes len + %d bytes but the guard only guarantees room for len + %d' % (render(c), need['const'] - slack, 'memused +=', need['const'], slack))


def clean_failure(fb, rep):
    rep.rule('R13.3', 'a failed LP read clears the LP; a failed basis read leaves no basis', floor=3)
    for nm, clr in (('_readFileReal', 'clearLPReal'), ('_readFileRational', 'clearLPRational')):
        f = fb.one(C + '::' + nm)
        A = Assume(atoms={'success': False})
        ok, p, _ = must(f, A, lambda n: M.is_this_call(n, clr))
        rep.check(ok, 'R13.3', nm + '|failure-clears-lp', f.where(), 'failure arm calls %s' % clr, 'a failed read returns without %s(): a half-read LP stays in the solver' % clr, path=p)
    f = fb.one(C + '::readBasisFile')
    asg = [n for n in f.nodes if n.k == 'BinaryOperator' and n.o == '=' and render(n.kids[0]) == '_hasBasis']
    ok = any('readBasisFile(' in render(n.kids[1]) for n in asg)
    pre = [n for n in f.nodes if M.is_this_call(n, 'clearBasis')]
    rep.check(ok and bool(pre), 'R13.3', 'readBasisFile|hasBasis-from-result', f.where(), 'clearBasis() first, then _hasBasis = result of the read', '_hasBasis does not follow the result of the read / the old basis is not cleared first')


# ---------------------------------------------------------------------------------------------------
THROWING = {'stoi', 'stol', 'stoll', 'stoul', 'stoull', 'stof', 'stod', 'stold'}


def exceptions(fb, rep):
    rep.rule('R13.4', 'throwing conversions reachable from the settings front ends are inside a try block', floor=6)
    roots = [fb.one(C + '::loadSettingsFile'), fb.one(C + '::parseSettingsString'), fb.one(C + '::_parseSettingsLine')]
    seen = set()
    work = list(roots)
    fs = []
    while work:
        f = work.pop()
        if f.u in seen:
            continue
        seen.add(f.u)
        fs.append(f)
        for c in f.calls():
            g = fb.funcs.get(c.u)
            if g is not None and g.cls == C and g.short not in ('setIntParam', 'setRealParam', 'setBoolParam', 'setRandomSeed'):
                work.append(g)
    ctl = False
    for f in fs + [g for g in fb.funcs.values() if g.name.startswith('verif_ctl::')]:
        k = 0
        for n in f.nodes:
            if n.k == 'CallExpr' and n.n and n.n.replace('std::', '') in THROWING:
                in_try = False
                for a in f.ancestors(n):
                    if a.k == 'CXXTryStmt':
                        # inside the try block proper, not inside a handler
                        tb = a.kids[0] if a.c else None
                        if tb is not None and any(x.i == n.i for x in tb.walk()):
                            in_try = True
                if f.name.startswith('verif_ctl::'):
                    if not in_try and f.short == 'unguarded_stoi':
                        ctl = True
                    continue
                k += 1
                rep.check(in_try, 'R13.4', '%s|%s#%d' % (f.short, n.short, k), '%s:%d' % (f.file, n.l), '%s inside try' % n.short,
                          'std::%s(%s) throws std::invalid_argument / out_of_range on malformed input and no handler encloses it: the exception escapes to the caller' % (n.short, render(n.args()[0])[:30]))
    if not ctl:
        raise AnalysisBroken('R13.4 positive control (verif_ctl::unguarded_stoi) did not fire')
    rep.ok('R13.4', 'control|unguarded_stoi', 'units/controls.cpp', 'positive control fires', nontrivial=False)


# ---------------------------------------------------------------------------------------------------
def eof_eval(n):
    """three-valued evaluation of a stream-state condition at end of file: good()=false, eof()=true, fail()=true, !stream=true"""
    n = strip(n)
    if n is None:
        return None
    if n.k == 'CXXMemberCallExpr' and n.short in ('good', 'eof', 'fail', 'bad'):
        return {'good': False, 'eof': True, 'fail': True, 'bad': None}[n.short]
    if n.k == 'CXXOperatorCallExpr' and n.o == '!':
        a = n.args()
        if a and ('istream' in a[0].t or 'ios' in a[0].t or 'stream' in a[0].t):
            return True
    if n.k == 'UnaryOperator' and n.o == '!':
        v = eof_eval(n.kids[0])
        return None if v is None else (not v)
    if n.k == 'BinaryOperator' and n.o in ('&&', '||'):
        a, b = eof_eval(n.kids[0]), eof_eval(n.kids[1])
        if n.o == '&&':
            if a is False or b is False:
                return False
            if a is True and b is True:
                return True
            return None
        if a is True or b is True:
            return True
        if a is False and b is False:
            return False
        return None
    if n.k in ('CXXMemberCallExpr',) and n.short in ('operator bool',):
        return False
    if n.k == 'ImplicitCastExpr' and n.o == 'UserDefinedConversion':
        return False
    return None


def eof(fb, rep, rf):
    rep.rule('R13.5', 'the test that follows a stream read takes its exit arm at end of file (good=false, eof=true, fail=true)', floor=3)
    k = 0
    for f in rf:
        for n in f.nodes:
            if n.k not in ('IfStmt', 'WhileStmt'):
                continue
            c = n.kid('cond')
            if c is None:
                continue
            reads = [x for x in c.walk() if x.k == 'CXXMemberCallExpr' and x.short in ('getline', 'get', 'read') and x.obj() is not None and ('istream' in x.obj().t or 'stream' in x.obj().t)]
            if not reads:
                continue
            k += 1
            v = eof_eval(c)
            key = '%s|%s(%s)' % (f.short, 'if' if n.k == 'IfStmt' else 'while', render(c)[:60])
            wh = '%s:%d' % (f.file, n.l)
            body = n.kid('then') if n.k == 'IfStmt' else n.kid('body')
            exits = body is not None and any(x.k in ('ReturnStmt', 'BreakStmt', 'GotoStmt') for x in body.walk())
            if v is None:
                rep.unrec('R13.5', key, wh, 'stream-state test not understood')
            elif n.k == 'IfStmt' and exits:
                rep.check(v is True, 'R13.5', key, wh, 'the failure arm is taken at end of file', 'at end of file the test `%s` is false: the failed read is treated as data and the loop goes on reading forever' % render(c)[:80])
            elif n.k == 'WhileStmt':
                # while(!in.getline(...)) { handle failure }  : body entered at EOF and must contain an exit;  while(in.getline(..)) : loop left at EOF
                rep.check((v is True and exits) or v is False, 'R13.5', key, wh, 'end of file leaves the loop / enters the failure handler', 'end of file neither leaves the loop nor reaches an exit')
            else:
                rep.ok('R13.5', key, wh, 'test evaluates to %s at end of file' % v, nontrivial=False)
    if k < 3:
        raise AnalysisBroken('only %d stream-read tests found in the readers' % k)


# ---------------------------------------------------------------------------------------------------
def terminator(fb, rep, rf):
    rep.rule('R13.6', 'a character pointer is not advanced beyond the terminator it was just found on', floor=4)
    k = 0
    for f in rf:
        if f.short not in ('_parseSettingsLine', 'parseSettingsString') and 'LPF' not in f.short:
            continue
        for loop in [n for n in f.nodes if n.k == 'WhileStmt']:
            c = loop.kid('cond')
            if c is None:
                continue
            ct = render(c)
            m = re.search(r'\(\*(\w+) != 0\)', ct)
            body = loop.kid('body')
            if not m or body is None or render(body) not in ('%s++' % m.group(1),):
                continue
            p = m.group(1)
            # the statements that follow the loop in the same compound
            par = loop.parent
            if par is None or par.k != 'CompoundStmt':
                continue
            ks = par.kids
            idx = [x.i for x in ks].index(loop.i)
            nxt = ks[idx + 1] if idx + 1 < len(ks) else None
            if nxt is None or nxt.k != 'IfStmt':
                continue
            k += 1

            def zero_eval(e):
                # value of a condition when *p == '\0'
                e = strip(e)
                t = render(e)
                mm = re.match(r'^\(\*%s (==|!=) (\d+)\)$' % p, t)
                if mm:
                    eq = int(mm.group(2)) == 0
                    return eq if mm.group(1) == '==' else (not eq)
                if e.k == 'BinaryOperator' and e.o in ('&&', '||'):
                    a, b = zero_eval(e.kids[0]), zero_eval(e.kids[1])
                    if e.o == '&&':
                        return False if (a is False or b is False) else (True if (a and b) else None)
                    return True if (a is True or b is True) else (False if (a is False and b is False) else None)
                return None
            v = zero_eval(nxt.kid('cond'))
            arm = nxt.kid('then') if v is True else nxt.kid('else') if v is False else None
            key = '%s|after-scan#%d|%s' % (f.short, k, p)
            wh = '%s:%d' % (f.file, nxt.l)
            if arm is None:
                rep.ok('R13.6', key, wh, 'no arm is taken on the terminator', nontrivial=False)
                continue
            # first modification of p in that arm: must be guarded by a test that excludes the terminator
            bad = None
            for x in arm.walk():
                if x.k == 'UnaryOperator' and x.o in ('post++', '++') and render(x.kids[0]) == p:
                    guarded = any(a.k == 'IfStmt' and re.search(r'\(\*%s != 0\)' % p, render(a.kid('cond'))) and any(y.i == x.i for y in a.kid('then').walk()) for a in f.ancestors(x) if any(z.i == a.i for z in arm.walk()))
                    # only the first increment matters
                    if not guarded:
                        bad = x
                    break
            rep.check(bad is None, 'R13.6', key, wh, 'the pointer is advanced only when it is not on the terminator',
                      'after scanning to a delimiter or the end of the string, `%s++` (line %s) is executed even when *%s is the terminating NUL: parsing continues beyond the end of the string' % (p, bad.l if bad else '', p))
    if k < 4:
        raise AnalysisBroken('only %d scan-then-advance sites found' % k)


# ---------------------------------------------------------------------------------------------------
def preconditions(fb, rep, rf):
    """R13.9: a reader helper that asserts pred(param) on entry states its precondition; the bytes behind `param` come from the file, so
    every caller must have tested pred(arg) itself - the call must be unreachable when pred(arg) is false"""
    rep.rule('R13.9', 'every call of a reader helper that asserts pred(param) on entry is unreachable when pred(arg) is false (the caller tests the input first)', floor=20)
    helpers = {}
    for g in rf:
        pn = [p_[0] for p_ in g.params]
        for n in g.nodes:
            if n.k == 'CallExpr' and g.in_assert(n) and n.short and n.short.startswith('LPFis') and len(n.args()) == 1 and render(strip(n.args()[0])) in pn:
                helpers[g.u] = (g, n.short, pn.index(render(strip(n.args()[0]))))
    if len(helpers) < 6:
        raise AnalysisBroken('only %d reader helpers with an asserted input predicate found' % len(helpers))
    sites = 0
    for f in rf:
        graphs = {}
        for c in f.calls():
            if c.u not in helpers or f.in_assert(c):
                continue
            g, pred, k = helpers[c.u]
            args = c.args()
            if k >= len(args):
                continue
            sites += 1
            a = render(strip(args[k]))
            atom = '%s(%s)' % (pred, a)
            if atom not in graphs:
                graphs[atom] = Graph(f, Assume(atoms={atom: False}))
            gr = graphs[atom]
            b = gr.block_of(c)
            reach = b is not None and b in gr.reach(gr.entry)
            key = '%s|%s(%s)@%d' % (f.name.replace('soplex::', '')[:50], g.short, a[:20], sites)
            rep.check(not reach, 'R13.9', key, '%s:%d' % (f.file, c.l), 'guarded by a test of %s' % atom,
                      '%s is called although no test of %s guards this path: the helper only asserts it, so a file with other bytes at this position aborts the reader (or, without assertions, makes it read a name/number that is not there)' % (g.short, atom))
    if sites < 20:
        raise AnalysisBroken('only %d call sites of precondition-asserting reader helpers found' % sites)


def null_fields(fb, rep, rf):
    """R13.10: MPSInput::fieldK() is null when the current line has fewer tokens; readLine() fills the fields in order, so fieldK == null
    implies fieldJ == null for J > K.  Every use of fieldK() as a string (dereference, argument of a call) must be unreachable, within
    the current line, when fieldK() is null."""
    rep.rule('R13.10', 'an MPS field is used as a string only where a null test of that field (or of a lower one) has been passed since the line was read', floor=60)
    sites = 0
    for f in rf:
        if not any(pt.replace('soplex::', '').startswith('MPSInput &') for pn, pt in f.params):
            continue
        mp = [pn for pn, pt in f.params if pt.replace('soplex::', '').startswith('MPSInput &')][0]
        uses = []
        for n in f.nodes:
            if n.k == 'CXXMemberCallExpr' and re.match(r'^field[1-5]$', n.short or '') and n.obj() is not None and render(n.obj()) == mp and not f.in_assert(n):
                p_ = n.parent
                while p_ is not None and p_.k in ('ImplicitCastExpr', 'ParenExpr'):
                    p_ = p_.parent
                if p_ is None:
                    continue
                # null tests themselves and pure pointer copies are not uses
                if p_.k == 'BinaryOperator' and p_.o in ('==', '!='):
                    continue
                if p_.k == 'UnaryOperator' and p_.o == '!':
                    continue
                if p_.k in ('IfStmt', 'ConditionalOperator', 'WhileStmt') and p_.kid('cond') is not None and strip(p_.kid('cond')).i == n.i:
                    continue
                uses.append((n, p_))
        if not uses:
            continue
        reads = [n for n in f.nodes if n.k == 'CXXMemberCallExpr' and n.short == 'readLine' and n.obj() is not None and render(n.obj()) == mp]
        for n, par in uses:
            sites += 1
            K = int(n.short[-1])

            def hook(node, txt, K=K, mp=mp):
                m = re.match(r'^\(?%s\.field([0-5])\(\) (==|!=) (nullptr|0|__null)\)?$' % re.escape(mp), txt)
                if m and int(m.group(1)) >= K:
                    return m.group(2) == '=='
                return None
            gr = Graph(f, Assume(hook=hook))
            b = gr.block_of(n)
            starts = [gr.block_of(r) for r in reads] or [gr.entry]
            starts = [x for x in starts if x is not None]
            rblocks = set(starts)
            frontier = set()
            for sb in starts:
                frontier |= set(gr.succ.get(sb, []))
            if not reads:
                frontier = {gr.entry}
            reach = gr.reach(list(frontier), avoid=rblocks - {b} if b not in rblocks else set())
            bad = b is not None and (b in reach or (b in rblocks and False))
            key = '%s|%s#%d' % (f.name.replace('soplex::', '')[:60], n.short, sites)
            rep.check(not bad, 'R13.10', key, '%s:%d' % (f.file, n.l), 'unreachable while %s() is null' % n.short,
                      '%s.%s() is used as a string (%s) on a path on which no test since the last readLine() excludes a null pointer: a line with fewer fields crashes the reader' % (mp, n.short, render(par)[:50]))
    if sites < 60:
        raise AnalysisBroken('only %d uses of MPS fields found' % sites)


def input_asserts(fb, rep, rf):
    """R13.11: text that comes from a file is validated with an error path, never with assert(): an assertion whose condition applies a
    character-class function to a string is a crash on malformed input in every build that keeps assertions (the baseline build does)"""
    rep.rule('R13.11', 'no assertion in the reader code (or the number parsers it calls) tests the character class of input text or a relation between LP numbers being read', floor=15)
    CLASSIFIERS = {'isdigit', 'isalpha', 'isalnum', 'isspace', 'isxdigit', 'isupper', 'islower', 'all_of', 'any_of', 'none_of'}
    scope = list(rf) + [f for f in fb.funcs.values() if f.short in ('ratFromString', 'readStringRational') and f.name.startswith('soplex::')]
    ctl = 0
    n_assert = 0
    for f in scope + [f for f in fb.funcs.values() if f.name.startswith('verif_ctl::')]:
        for n in f.nodes:
            if n.k != 'ConditionalOperator':
                continue
            e = n.kid('else')
            if e is None or e.k != 'CallExpr' or e.n != '__assert_fail':
                continue
            cond = n.kid('cond')
            hit = [x for x in cond.walk() if x.k == 'CallExpr' and x.short in CLASSIFIERS] + [x for x in cond.walk() if x.k == 'DeclRefExpr' and x.short in CLASSIFIERS]
            # second pattern: a section reader asserting a relation between LP numbers it is filling in from the file
            if not hit and re.match(r'^(MPSread|LPFread|readLPF|readMPS|readBasis)', f.short or ''):
                pset = set(pn for pn, pt in f.params if pt.endswith('&') and not pt.startswith('const '))
                hit = [x for x in cond.walk() if x.k == 'CXXMemberCallExpr' and x.short in ('lhs', 'rhs', 'lower', 'upper', 'obj', 'maxObj', 'value') and x.obj() is not None and render(x.obj()) in pset]
            if f.name.startswith('verif_ctl::'):
                ctl += 1 if hit else 0
                continue
            n_assert += 1
            if hit:
                rep.bad('R13.11', '%s|assert(%s)' % (f.short, render(cond)[:40]), '%s:%d' % (f.file, n.l), 'assert(%s) states something about data read from a file (character class / numbers being filled in): an input that does not comply aborts the process instead of reaching the reader\'s error path' % render(cond)[:70])
    if ctl < 2:
        raise AnalysisBroken('R13.11 positive controls (units/controls.cpp asserts_digits, MPSreadRangesControl) did not fire')
    rep.ok('R13.11', 'control|asserts_digits', 'units/controls.cpp', 'positive control fires', nontrivial=False)
    for k in range(0, n_assert, 10):
        rep.ok('R13.11', 'scan|assertions %d-%d' % (k, min(k + 9, n_assert - 1)), 'src', 'no character-class test in these assertions', nontrivial=False)
    if n_assert < 100:
        raise AnalysisBroken('only %d assertions found in the reader code' % n_assert)


# ---------------------------------------------------------------------------------------------------
def eval_at_nul(fb, e, elem_txt, depth=0):
    """three-valued value of a loop condition when the scanned character `elem_txt` is NUL"""
    e = strip(e)
    if e is None or depth > 4:
        return None
    while e.k in ('CStyleCastExpr', 'CXXStaticCastExpr', 'CXXFunctionalCastExpr') and e.c:
        e = strip(e.kids[0])

    def val(x):
        """integer value of a sub-expression, or None"""
        x = strip(x)
        while x is not None and x.k in ('CStyleCastExpr', 'CXXStaticCastExpr', 'CXXFunctionalCastExpr', 'ImplicitCastExpr') and x.c:
            x = strip(x.kids[0])
        if x is None:
            return None
        if render(x) == elem_txt:
            return 0
        if x.k == 'CallExpr' and x.short in ('tolower', 'toupper') and x.args() and val(x.args()[0]) == 0:
            return 0
        c = const_int(x)
        if c is not None:
            return c
        if x.k == 'CharacterLiteral' and x.v is not None:
            return int(x.v)
        return None
    if e.k == 'BinaryOperator' and e.o in ('&&', '||'):
        a = eval_at_nul(fb, e.kids[0], elem_txt, depth)
        b = eval_at_nul(fb, e.kids[1], elem_txt, depth)
        if e.o == '&&' and a is not False and b is not False:
            # `tolower(A) == elem` can only hold (elem being NUL) if A is NUL too: evaluate the other conjuncts with A = NUL
            conj = []

            def flat(x):
                x = strip(x)
                if x.k == 'BinaryOperator' and x.o == '&&':
                    flat(x.kids[0])
                    flat(x.kids[1])
                else:
                    conj.append(x)
            flat(e)
            for x in conj:
                if x.k == 'BinaryOperator' and x.o == '==':
                    for l, r in ((strip(x.kids[0]), strip(x.kids[1])), (strip(x.kids[1]), strip(x.kids[0]))):
                        if val(r) == 0 and l.k == 'CallExpr' and l.short in ('tolower', 'toupper') and l.args():
                            for y in conj:
                                if y is not x and eval_at_nul(fb, y, render(strip(l.args()[0])), depth + 1) is False:
                                    return False
        if e.o == '&&':
            return False if (a is False or b is False) else (True if (a is True and b is True) else None)
        return True if (a is True or b is True) else (False if (a is False and b is False) else None)
    if e.k == 'UnaryOperator' and e.o == '!':
        a = eval_at_nul(fb, e.kids[0], elem_txt, depth)
        return None if a is None else (not a)
    if e.k == 'BinaryOperator' and e.o in ('==', '!=', '<', '>', '<=', '>='):
        l, r = strip(e.kids[0]), strip(e.kids[1])
        # strchr(set, c) ==/!= nullptr: the terminator of `set` matches a NUL character
        for a, b in ((l, r), (r, l)):
            if a.k == 'CallExpr' and a.short == 'strchr' and len(a.args()) == 2 and val(a.args()[1]) == 0 and b.k in ('CXXNullPtrLiteralExpr', 'GNUNullExpr', 'IntegerLiteral'):
                return e.o == '!='
        a, b = val(l), val(r)
        if a is None or b is None:
            return None
        return {'==': a == b, '!=': a != b, '<': a < b, '>': a > b, '<=': a <= b, '>=': a >= b}[e.o]
    if e.k == 'CallExpr' and e.u and len(e.args()) == 1 and val(e.args()[0]) == 0:
        g = fb.funcs.get(e.u)
        if g is not None and len(g.params) == 1:
            rets = [n for n in g.nodes if n.k == 'ReturnStmt' and n.c]
            if len(rets) == 1:
                return eval_at_nul(fb, rets[0].kids[0], g.params[0][0], depth + 1)
        return None
    v = val(e)
    if v is not None:
        return bool(v)
    return None


def scan_loops(fb, rep, rf):
    """R13.12: a loop that walks over characters (its condition reads a char element whose index / pointer the loop advances) must leave
    when that character is the terminator: the condition, evaluated with the character = NUL, is false"""
    rep.rule('R13.12', 'every loop that advances over the characters it tests stops at the terminator (its condition is false when the tested character is NUL)', floor=30)
    seen = set()
    k = 0
    for f in rf:
        for n in f.nodes:
            if n.k not in ('WhileStmt', 'ForStmt', 'DoStmt'):
                continue
            c = n.kid('cond')
            if c is None or (f.file, n.l, n.k) in seen:
                continue
            elems = []
            for x in c.walk():
                if x.k == 'ArraySubscriptExpr' and x.t in ('char', 'const char'):
                    elems.append((x, strip(x.kids[1])))
                elif x.k == 'UnaryOperator' and x.o == '*' and x.t in ('char', 'const char'):
                    elems.append((x, strip(x.kids[0])))
            if not elems:
                continue
            body = [n.kid('body'), n.kid('inc')]
            adv = set()
            for b in body:
                if b is None:
                    continue
                for x in b.walk():
                    if x.k == 'UnaryOperator' and x.o and x.o[-2:] in ('++', '--') and x.c:
                        adv.add(render(strip(x.kids[0])))
                    if x.k == 'CompoundAssignOperator' and x.o in ('+=', '-='):
                        adv.add(render(strip(x.kids[0])))
            walked = [(x, ix) for x, ix in elems if any(v.k == 'DeclRefExpr' and render(v) in adv for v in ix.walk())]
            if not walked:
                continue
            seen.add((f.file, n.l, n.k))
            done = set()
            for x, ix in walked:
                t = render(x)
                if t in done:
                    continue
                done.add(t)
                k += 1
                v = eval_at_nul(fb, c, t)
                key = '%s|loop(%s)|%s' % (f.short, render(c)[:40], t)
                rep.check(v is False, 'R13.12', key, '%s:%d' % (f.file, n.l), 'the loop leaves when %s is NUL' % t,
                          'the loop advances over %s while (%s), which is %s when %s is the terminator: the scan runs past the end of the string' % (t, render(c)[:60], 'true' if v else 'not decided', t))
    if k < 30:
        raise AnalysisBroken('only %d character-scanning loops found in the reader code' % k)


# ---------------------------------------------------------------------------------------------------
def read_targets(fb, rep, rf):
    """R13.13: a scalar local that receives a value from a stream read (in.get(c), in >> x, in.read(&x, ..)) keeps its old content when
    the read fails (empty / truncated file).  If it has no initialiser, every later use must be governed by a test of that read (the call
    is a condition, or the stream state is tested before the use) - otherwise the reader branches on an indeterminate value."""
    rep.rule('R13.13', 'a scalar local filled by a stream read is initialised, or the read is tested before the local is used', floor=2)
    k = 0
    scope = list(rf) + [f for f in fb.funcs.values() if f.name.startswith('soplex::SPxLPBase<') and f.short in ('read', 'readFile') and f.nodes]
    seen = set()
    for f in scope:
        if f.u in seen:
            continue
        seen.add(f.u)
        for c in f.nodes:
            if not (c.k == 'CXXMemberCallExpr' and c.short in ('get', 'read', 'getline') and c.obj() is not None and re.search(r'istream|ifstream|stringstream', c.obj().t or '')) \
               and not (c.k == 'CXXOperatorCallExpr' and c.o == '>>' and c.args() and re.search(r'istream|ifstream|stringstream', c.args()[0].t or '')):
                continue
            args = c.args()[1:] if c.k == 'CXXOperatorCallExpr' else c.args()
            for a in args[:1]:
                a = strip(a)
                if a.k == 'UnaryOperator' and a.o == '&' and a.c:
                    a = strip(a.kids[0])
                if a.k != 'DeclRefExpr' or a.dk != 'local':
                    continue
                decl = [n for n in f.nodes if n.k == 'VarDecl' and n.u == a.u]
                if not decl or decl[0].t not in ('char', 'int', 'unsigned int', 'long', 'double', 'bool', 'unsigned char'):
                    continue
                k += 1
                key = '%s|%s filled by %s' % (f.name.replace('soplex::', '')[:50], a.n, render(c)[:25])
                wh = '%s:%d' % (f.file, c.l)
                if decl[0].c:
                    rep.ok('R13.13', key, wh, '%s has an initialiser' % a.n)
                    continue
                # the read itself is a condition (if / while / &&), or a stream test lies between the read and every use
                p_ = c.parent
                while p_ is not None and p_.k in ('ImplicitCastExpr', 'ParenExpr', 'CXXMemberCallExpr', 'UnaryOperator') and p_.k != 'CompoundStmt':
                    if p_.k in ('IfStmt', 'WhileStmt'):
                        break
                    p_ = p_.parent
                tested = p_ is not None and p_.k in ('IfStmt', 'WhileStmt', 'ForStmt', 'BinaryOperator', 'ConditionalOperator')
                uses = [n for n in f.nodes if n.k == 'DeclRefExpr' and n.u == a.u and n.i > c.i and not any(x.i == c.i for x in f.ancestors(n))]
                rep.check(tested or not uses, 'R13.13', key, wh, 'the read is tested before %s is used' % a.n,
                          '%s has no initialiser and receives its value from %s, whose success is not tested: for an empty or truncated stream the following uses of %s (line %d) read an indeterminate value' % (a.n, render(c)[:30], a.n, uses[0].l if uses else 0))
    if k < 2:
        raise AnalysisBroken('R13.13: only %d scalar locals filled by stream reads found' % k)


def growth_tests(fb, rep, rf):
    """R13.14: the readers detect a duplicate name by remembering the size of the name set, adding the name and testing whether the set grew.
    After `n = X.size(); X.add(..)` the size is >= n, so only `X.size() <= n` / `== n` (not grown) or `> n` / `!= n` (grown) are tests;
    `X.size() < n` is never true and `>= n` always: the duplicate goes undetected and a second column of the same name is created."""
    rep.rule('R13.14', 'a did-the-set-grow test after add() compares the new size with the remembered one by <=, ==, > or != (never <, >=, which are constant)', floor=2)
    k = 0
    for f in rf:
        sizes = {}   # local usr -> rendered container
        for x in f.nodes:
            if x.k == 'VarDecl' and x.c:
                i0 = strip(x.kids[0])
                if i0.k == 'CXXMemberCallExpr' and i0.short == 'size' and i0.obj() is not None:
                    sizes[x.u] = (render(strip(i0.obj())), x)
        for n in f.nodes:
            if n.k != 'BinaryOperator' or n.o not in ('<', '<=', '>', '>=', '==', '!='):
                continue
            a, b = strip(n.kids[0]), strip(n.kids[1])
            for side, (x, y) in enumerate(((a, b), (b, a))):
                if x.k == 'CXXMemberCallExpr' and x.short == 'size' and x.obj() is not None and y.k == 'DeclRefExpr' and y.u in sizes \
                        and sizes[y.u][0] == render(strip(x.obj())):
                    cont, decl = sizes[y.u]
                    adds = [z for z in f.nodes if z.k == 'CXXMemberCallExpr' and z.short == 'add' and z.obj() is not None and render(strip(z.obj())) == cont and decl.l <= z.l <= n.l]
                    if not adds:
                        continue
                    op = n.o if side == 0 else {'<': '>', '<=': '>=', '>': '<', '>=': '<=', '==': '==', '!=': '!='}[n.o]
                    k += 1
                    rep.check(op in ('<=', '==', '>', '!='), 'R13.14', '%s|%s.size() vs %s' % (f.short, cont, y.n), '%s:%d' % (f.file, n.l), 'tested by %s' % op,
                              '`%s` after %s.add(): the size can only have grown, so this test is %s - a duplicate name is not detected' % (render(n)[:60], cont, 'never true' if op == '<' else 'always true'))
    if k < 2:
        raise AnalysisBroken('R13.14: only %d growth tests found in the readers' % k)
