"""The public LP modifiers of SoPlexBase<double> (shared by C06, C07, C11).

The instance set is *discovered* (public, non-const methods whose name matches the verb/what/field
grammar); the per-modifier obligations are derived from the name.  A modifier whose name the grammar
does not know makes the analysis fail as broken instead of passing vacuously."""
import re
from engine import render, strip, Graph, Assume, MustSummaries
from facts import AnalysisBroken, CALL_KINDS

CLS = 'soplex::SoPlexBase<double>'
PAT = re.compile(r'^(add|change|remove|clear)(RowRange|ColRange|Rows|Cols|Row|Col|Lhs|Rhs|Range|Lower|Upper|Bounds|Obj|Element|LP)(Real|Rational)$')

# which side array the modifier's quantity lives in
ROWISH = ('Row', 'Rows', 'RowRange', 'Lhs', 'Rhs', 'Range')
COLISH = ('Col', 'Cols', 'ColRange', 'Lower', 'Upper', 'Bounds')

MODES = ('SYNCMODE_ONLYREAL', 'SYNCMODE_AUTO', 'SYNCMODE_MANUAL')
FLOOR_REAL, FLOOR_RATIONAL = 30, 42


class Modifier(object):
    def __init__(self, fn):
        m = PAT.match(fn.short)
        self.fn = fn
        self.verb, self.what, self.field = m.group(1), m.group(2), m.group(3)
        self.key = '%s(%s)' % (fn.short, ','.join(short_t(t) for _, t in fn.params))
        # wrappers: index-list and range removals forward to the perm overload of their family
        self.wrapper = (self.verb == 'remove' and (self.what.endswith('Range') or len(fn.params) == 3))
        base = self.what.replace('Range', 's') if self.what.endswith('Range') and self.verb == 'remove' else self.what
        self.lpname = 'clear' if self.what == 'LP' else self.verb + base
        self.family = self.verb + base + self.field           # removeRowsReal ...
        self.helper = '_' + self.verb + base + 'Real'           # _changeLhsReal ...
        self.structural = self.verb in ('add', 'remove') or self.what in ('Row', 'Col', 'Element') or self.what == 'LP'

    def types_field(self):
        if self.what in ROWISH:
            return '_rowTypes'
        if self.what in COLISH:
            return '_colTypes'
        return None


def short_t(t):
    return t.replace('soplex::', '').replace('const ', '').replace(' &', '&').replace('__mpq_struct (*)[1]', 'mpq_t*')


def discover(fb):
    ms = []
    for f in fb.methods_of(CLS):
        if f.acc == 'public' and not f.const and PAT.match(f.short):
            ms.append(Modifier(f))
    ms.sort(key=lambda m: m.fn.line)
    # every public non-const method that *looks* like a modifier must be known to the grammar
    for f in fb.methods_of(CLS):
        if f.acc == 'public' and not f.const and re.match(r'^(add|change|remove|clear)[A-Z].*(Real|Rational)$', f.short) and not PAT.match(f.short):
            if f.short in ('clearBasis',):
                continue
            raise AnalysisBroken('public modifier %s is not covered by the modifier grammar' % f.name)
    return ms


# ---- event predicates ---------------------------------------------------------------------------

def obj_text(call):
    o = call.obj() if call.k == 'CXXMemberCallExpr' else None
    return render(o) if o is not None else None


def is_lp_call(n, lp, name=None):
    """member call on this->_realLP / this->_rationalLP (optionally of a given method)"""
    if n.k != 'CXXMemberCallExpr':
        return False
    if obj_text(n) != lp:
        return False
    return name is None or n.short == name


def is_this_call(n, name):
    if n.k != 'CXXMemberCallExpr' or n.short != name:
        return False
    o = n.obj()
    return o is not None and o.k == 'CXXThisExpr'


LP_CONST_OK = None


def lp_mutators(fb, inst):
    """names of non-const public methods of SPxLPBase<inst>"""
    out = set()
    c = fb.classes.get('soplex::SPxLPBase<%s>' % inst)
    if c is None:
        raise AnalysisBroken('class SPxLPBase<%s> not found' % inst)
    for m in c['methods']:
        if not m.get('const') and m['mk'] == 'method' and not m.get('static'):
            out.add(m['n'])
    return out


def types_write(n, field):
    """assignment `field[...] = ...`"""
    if n.k not in ('BinaryOperator', 'CXXOperatorCallExpr') or n.o != '=':
        return False
    l = n.kids[0] if n.k == 'BinaryOperator' else n.args()[0]
    l = strip(l)
    if l.k == 'CXXOperatorCallExpr' and l.o == '[]':
        a = l.args()
        return render(a[0]) == field
    return False


def types_call(n, field, names):
    return n.k == 'CXXMemberCallExpr' and n.short in names and obj_text(n) == field


def mode_assume(mode):
    return Assume(ints={'SYNCMODE': mode})
