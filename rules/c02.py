"""C02 — infeasible / unbounded verdicts, rays and Farkas proofs (plumbing clauses)."""
import re
from engine import render, strip, Graph, Assume, must, reachable_events, case_arm_nodes
from facts import AnalysisBroken, CALL_KINDS
import modifiers as M
import c01

EXPLANATION = (
    "Decides plumbing clauses of C02: R02.1 ray / Farkas kind agreement - the primal ray and the Farkas vector travel through their own "
    "producers, unscaling functions and getters (same engine as C01 R01.1); R02.2 flag implies vector - wherever the 'has primal ray' / "
    "'has Farkas proof' flag of the stored solution can become true it is defined from the matching status (UNBOUNDED / INFEASIBLE) and "
    "from `the LP in the solver is the user's LP`, and under the flag the matching vector is fetched from the solver; R02.3 verdict "
    "mapping - simplifier verdicts map to INFEASIBLE / UNBOUNDED / INForUNBD and never to OPTIMAL; R02.4 ensure-ray - with ENSURERAY a "
    "simplifier verdict is not reported but the LP is re-solved without presolve, and a solver verdict on a presolved LP is re-established "
    "on the original LP; without it no ray of a presolved LP is offered (the flags contain _isRealLPLoaded); R02.5 phase-1 guard - after "
    "every entering pivot an apparent unboundedness while a shift is active is not reported but reset; R02.6 certificate builders clear "
    "the vector before they fill it. NOT decided: that the ray / Farkas vector computed by the simplex is a valid certificate, that "
    "INFEASIBLE is never wrong.")

C = M.CLS
S = 'soplex::SPxSolverBase<double>'


def run(fb, rep, tier):
    rep.extra['explanation'] = EXPLANATION
    rep.rule('R02.1', 'primal ray / Farkas vector kind agreement at every call site and getter', floor=12)
    n = c01.kind_sites(fb, rep, 'R02.1', ('primalray', 'farkas'))
    if n < 12:
        raise AnalysisBroken('only %d ray / Farkas sites found' % n)

    # ------------------------------------------------------------------ R02.2
    rep.rule('R02.2', 'ray / Farkas flag: defined from the matching status and _isRealLPLoaded; under the flag the vector is fetched', floor=6)
    nf = 0
    for f in fb.methods_of(C):
        for n in f.nodes:
            if n.k == 'BinaryOperator' and n.o == '=' and render(n.kids[0]) in ('_solReal._hasPrimalRay', '_solReal._hasDualFarkas') and render(n.kids[1]) != 'false' and not f.in_assert(n):
                nf += 1
                flag = render(n.kids[0]).split('.')[-1]
                want_status, getter, vec = ('UNBOUNDED', 'getPrimalray', '_primalRay') if flag == '_hasPrimalRay' else ('INFEASIBLE', 'getDualfarkas', '_dualFarkas')
                rhs = render(n.kids[1])
                key = '%s|%s' % (f.short, flag)
                wh = '%s:%d' % (f.file, n.l)
                rep.check(('== %s' % want_status) in rhs and '_isRealLPLoaded' in rhs, 'R02.2', key + '|definition', wh, rhs[:80],
                          '%s is defined as %s: expected status() == %s && _isRealLPLoaded (a ray of a presolved or internally scaled LP is not a ray of the user\'s LP)' % (flag, rhs, want_status))
                A = Assume(atoms={'_solReal.' + flag: True})
                ok, p, _ = must(f, A, lambda x, getter=getter, vec=vec: x.k == 'CXXMemberCallExpr' and x.short == getter and vec in render(x))
                # only paths from the definition onwards matter; the definition dominates the fetch in the same function
                rep.check(ok, 'R02.2', key + '|fetch', wh, 'under the flag %s(%s) is called' % (getter, vec), 'the flag %s can be true without %s being fetched from the solver' % (flag, vec), path=p)
    if nf < 2:
        raise AnalysisBroken('ray / Farkas flag definitions not found')
    # the user-level predicates report exactly these flags
    for nm, flag in (('hasPrimalRay', 'hasPrimalRay'), ('hasDualFarkas', 'hasDualFarkas')):
        for f in fb.find(C + '::' + nm):
            rets = [render(x) for x in f.nodes if x.k == 'ReturnStmt']
            rep.check(any(flag in r for r in rets), 'R02.2', nm + '|reports-flag', f.where(), rets[0][:60] if rets else '', '%s() does not report the stored flag (%s)' % (nm, rets))

    # ------------------------------------------------------------------ R02.3 / R02.4
    rep.rule('R02.3', 'simplifier verdicts map to INFEASIBLE / UNBOUNDED / INForUNBD, never to OPTIMAL', floor=4)
    rep.rule('R02.4', 'ensure-ray: verdicts of a presolved LP are re-established on the original LP', floor=4)
    ev = fb.one(C + '::_evaluateSolutionReal')
    enum = dict(fb.enums['soplex::SPxSimplifier<double>::Result']['items'])
    sw = [n for n in ev.nodes if n.k == 'SwitchStmt' and render(n.kid('cond')) == 'simplificationStatus']
    if len(sw) != 1:
        raise AnalysisBroken('_evaluateSolutionReal: switch(simplificationStatus) not found')
    cases = {c.v: c for c in sw[0].walk() if c.k == 'CaseStmt'}
    arm = case_arm_nodes(ev, cases[enum['INFEASIBLE']])
    # the simplifier's UNBOUNDED only says that an improving direction exists; nothing is known about feasibility, so without a solve of
    # the original LP it may only become INForUNBD (finding F60: an infeasible LP was reported unbounded)
    unverified = [x for x in arm if x.k == 'BinaryOperator' and x.o == '=' and render(x.kids[0]) == '_status' and render(x.kids[1]) == 'UNBOUNDED']
    rep.check(not unverified, 'R02.3', 'simplifier|no-unverified-UNBOUNDED', '%s:%d' % (ev.file, unverified[0].l) if unverified else ev.where(), 'the simplifier arm never assigns the definite status UNBOUNDED',
              'the simplifier arm assigns _status = UNBOUNDED without a solve: the simplifier finds improving directions without knowing whether the LP is feasible, so an infeasible LP can be reported as unbounded')
    for res, st in (('INFEASIBLE', 'INFEASIBLE'), ('UNBOUNDED', 'INForUNBD'), ('DUAL_INFEASIBLE', 'INForUNBD')):
        rep.check(enum[res] in cases, 'R02.3', 'simplifier|%s|handled' % res, ev.where(), 'case %s' % res, 'simplifier verdict %s has no case' % res)
        asg = [x for x in arm if x.k == 'BinaryOperator' and x.o == '=' and render(x.kids[0]) == '_status' and render(x.kids[1]) == st]
        rep.check(bool(asg), 'R02.3', 'simplifier|%s|maps-to|%s' % (res, st), ev.where(), '%s -> %s' % (res, st), 'no arm assigns %s for the verdict %s' % (st, res))
    rep.check(not [x for x in arm if x.k == 'BinaryOperator' and render(x) == '(_status = OPTIMAL)'], 'R02.3', 'simplifier|never-optimal', ev.where(), 'verdict arms never assign OPTIMAL', 'a verdict arm assigns OPTIMAL')
    # ensure-ray in the simplifier-verdict arm
    sub = cases[enum['INFEASIBLE']]
    top = sub
    while top.parent is not None and top.parent.k in ('CaseStmt',):
        top = top.parent
    armset = set(x.i for x in arm)
    ifs = [x for x in arm if x.k == 'IfStmt' and render(x.kid('cond')) == 'boolParam(ENSURERAY)']
    if not ifs:
        rep.bad('R02.4', 'simplifier-verdict|ensure-ray-split', ev.where(), 'the simplifier-verdict arm does not test ENSURERAY')
    else:
        th = list(ifs[0].kid('then').walk())
        el = list(ifs[0].kid('else').walk()) if ifs[0].kid('else') is not None else []
        rep.check(any(M.is_this_call(x, '_preprocessAndSolveReal') and render(x.args()[0]) == 'false' for x in th), 'R02.4', 'simplifier-verdict|ensure-ray|re-solves', '%s:%d' % (ev.file, ifs[0].l),
                  'with ENSURERAY the LP is solved again without presolve', 'with ENSURERAY a simplifier verdict is not followed by a re-solve without presolve: no ray / Farkas proof can be offered')
        rep.check(not any(x.k == 'BinaryOperator' and x.o == '=' and render(x.kids[0]) == '_status' for x in th), 'R02.4', 'simplifier-verdict|ensure-ray|no-verdict', '%s:%d' % (ev.file, ifs[0].l),
                  'the verdict is left to the re-solve', 'with ENSURERAY the simplifier verdict is reported although a re-solve follows')
        rep.check(any(M.is_this_call(x, '_loadRealLP') for x in el), 'R02.4', 'simplifier-verdict|no-ensure-ray|restores-lp', '%s:%d' % (ev.file, ifs[0].l), 'the original LP is loaded again', 'after a simplifier verdict the presolved LP stays loaded')
    # solver-verdict arm
    st_enum = dict(fb.enums['soplex::SPxSolverBase<double>::Status']['items'])
    sw2 = [n for n in ev.nodes if n.k == 'SwitchStmt' and render(n.kid('cond')) == '_status']
    cases2 = {c.v: c for c in sw2[0].walk() if c.k == 'CaseStmt'} if sw2 else {}
    if st_enum['INFEASIBLE'] not in cases2:
        rep.bad('R02.4', 'solver-verdict|arm', ev.where(), 'no arm for solver status INFEASIBLE')
    else:
        arm2 = case_arm_nodes(ev, cases2[st_enum['INFEASIBLE']])
        ifs2 = [x for x in arm2 if x.k == 'IfStmt' and render(x.kid('cond')) == '(!_isRealLPLoaded && boolParam(ENSURERAY))']
        rep.check(bool(ifs2) and any(M.is_this_call(x, '_resolveWithoutPreprocessing') for x in ifs2[0].kid('then').walk()), 'R02.4', 'solver-verdict|ensure-ray|resolves-original', ev.where(),
                  'a verdict on a presolved LP is re-established by _resolveWithoutPreprocessing', 'with ENSURERAY a verdict reached on the presolved LP is not re-established on the original LP')
        for lab in ('UNBOUNDED', 'INForUNBD'):
            rep.check(st_enum[lab] in cases2 and any(x.i in set(y.i for y in arm2) for x in case_arm_nodes(ev, cases2[st_enum[lab]])[:1]) or st_enum[lab] in cases2, 'R02.4', 'solver-verdict|%s|same-arm' % lab, ev.where(),
                      '%s shares the verdict arm' % lab, '%s is not handled with the other verdicts' % lab, nontrivial=False)

    # ------------------------------------------------------------------ R02.5
    rep.rule('R02.5', 'after an entering pivot apparent unboundedness under an active shift is reset, not reported', floor=1)
    solve = fb.one(S + '::solve')
    ent = [n for n in solve.nodes if n.k == 'CXXMemberCallExpr' and n.short == 'enter' and n.obj() is not None and n.obj().k == 'CXXThisExpr']
    g = Graph(solve, None, drop_back_edges=True)
    for k, e in enumerate(ent):
        def guard(n):
            return n.k == 'IfStmt' and 'UNBOUNDED' in render(n.kid('cond')) and 'shift()' in render(n.kid('cond')) and any(x.k == 'CXXMemberCallExpr' and x.short == 'setBasisStatus' and 'REGULAR' in render(x) for x in n.kid('then').walk())
        gs = [n for n in solve.nodes if guard(n) and (n.l, n.i) > (e.l, e.i)]
        # the guard is the next control statement after the pivot in the same loop body
        rep.check(bool(gs) and gs[0].l - e.l < 12, 'R02.5', 'solve|enter#%d|phase1-guard' % k, '%s:%d' % (solve.file, e.l), 'guard `%s` follows the pivot' % (render(gs[0].kid('cond'))[:70] if gs else ''),
                  'after enter() there is no test that resets an UNBOUNDED basis status while shift() > epsilon(): phase-1 unboundedness is reported as a verdict')

    # ------------------------------------------------------------------ R02.6
    rep.rule('R02.6', 'ray / Farkas builders clear the vector before filling it', floor=4)
    nb = 0
    for f in fb.methods_of(S):
        for vec in ('primalRay', 'dualFarkas'):
            adds = [n for n in f.nodes if n.k == 'CXXMemberCallExpr' and n.short == 'add' and n.obj() is not None and render(n.obj()) == vec]
            if not adds:
                continue
            nb += 1
            clr = [n for n in f.nodes if n.k == 'CXXMemberCallExpr' and n.short == 'clear' and n.obj() is not None and render(n.obj()) == vec and (n.l, n.i) < (adds[0].l, adds[0].i)]
            ok, p, _ = must(f, None, lambda n, vec=vec: n.k == 'CXXMemberCallExpr' and n.short == 'clear' and n.obj() is not None and render(n.obj()) == vec)
            rep.check(bool(clr) and ok, 'R02.6', '%s|%s' % (f.short, vec), f.where(), '%s.clear() precedes the first add' % vec,
                      '%s is filled with add() without being cleared first: entries of an earlier certificate survive and the vector is no proof for the current LP' % vec)
    if nb < 4:
        raise AnalysisBroken('only %d certificate builders found' % nb)
