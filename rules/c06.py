"""C06 — modifying an LP in place equals building the modified LP from scratch (structural clauses)."""
import re
from engine import render, strip, Graph, Assume, must, reachable_events, case_arm_nodes
from facts import AnalysisBroken, CALL_KINDS
import modifiers as M

EXPLANATION = (
    "Decides structural necessary conditions of C06: R06.1 every public modifier mutates the real LP with the LP method of its own "
    "quantity and invalidates the cached solution on every non-aborting path; index-list / range removals build the permutation "
    "with the LP's own dimension and forward to the permutation overload of the same family; R06.2 in the _...Real helpers the "
    "stored-basis arrays are indexed / extended in the index domain (row vs column) of the modified quantity and the solver-loaded "
    "arm re-derives _hasBasis; R06.3 every storage primitive of SPxLPBase touches both the row-wise and the column-wise copy of the "
    "matrix; R06.4 every call that hands new data to a persistently scaled LP passes the LP's own isScaled() as scale flag; R06.5 "
    "_invalidateSolution drops status and both solutions; R06.6 the solver's overrides of the LP mutators forward the same arguments "
    "to the base LP, un-initialise the solver and notify the basis in the matching index domain; R06.7 permutation builders and the "
    "loops that remap per-row/column arrays after a permutation removal run over the dimension before the removal. NOT decided: the "
    "arithmetic inside SVSet/LPRowSet/LPColSet, results of warm-started re-solves, the renumbering computed by the containers.")

C = M.CLS
ROW_ARR = ('_basisStatusRows',)
COL_ARR = ('_basisStatusCols',)


def arr_of(n):
    """name of the member array subscripted / appended by node n (operator[] or append/removeLast/reSize)"""
    if n.k == 'CXXOperatorCallExpr' and n.o == '[]':
        a = n.args()
        return render(a[0]), a[1]
    return None, None


def run(fb, rep, tier):
    rep.extra['explanation'] = EXPLANATION
    rep.extra['assumptions'] = ['exceptional paths carry no obligation', 'a loop whose header is reached counts as executing its body for "effect present" obligations']
    mods = M.discover(fb)
    rep.rule('R06.1', 'modifier: real-LP mutation of its own quantity + _invalidateSolution on every path; wrappers build perm with the LP dimension and forward it', floor=140)
    for m in mods:
        fn = m.fn
        w = fn.where()
        if m.wrapper:
            builder = '_rangeToPerm' if m.what.endswith('Range') else '_idxToPerm'
            dimname = ('numRows' if 'Row' in m.what else 'numCols') + ('Rational' if m.field == 'Rational' else '')
            for n in fn.nodes:
                if M.is_this_call(n, builder):
                    a = n.args()
                    permarg = render(a[2])
                    dim = render(a[3])
                    rep.check(dim in (dimname + '()', ('numRows()' if 'Row' in m.what else 'numCols()')), 'R06.1', m.key + '|wrapper|perm-size|' + permarg, '%s:%d' % (fn.file, n.l),
                              '%s(..., %s, %s)' % (builder, permarg, dim), 'permutation is built for %s, expected %s()' % (dim, dimname))
                    # the forward in the same compound statement passes the same buffer
                    blk = n.parent
                    while blk is not None and blk.k != 'CompoundStmt':
                        blk = blk.parent
                    fw = [c for c in (blk.walk() if blk is not None else []) if c.k == 'CXXMemberCallExpr' and c.short == m.family and len(c.args()) == 1]
                    okf = len(fw) == 1 and render(fw[0].args()[0]) == permarg and fw[0].i > n.i
                    rep.check(okf, 'R06.1', m.key + '|wrapper|forwards-same-perm|' + permarg, '%s:%d' % (fn.file, n.l), 'forwards %s to %s' % (permarg, m.family),
                              'the permutation built in %s is not the one forwarded to %s' % (permarg, m.family))
                    # argument order of the builder: (idx, n, perm, size) / (start, end, perm, size) follow the wrapper's parameters
                    exp = [p[0] for p in fn.params[:2]]
                    got = [render(a[0]), render(a[1])]
                    rep.check(got == exp, 'R06.1', m.key + '|wrapper|builder-args|' + permarg, '%s:%d' % (fn.file, n.l), '%s(%s)' % (builder, ', '.join(got)),
                              '%s is called with (%s), expected (%s)' % (builder, ', '.join(got), ', '.join(exp)))
            continue

        def real_effect(n, m=m):
            return M.is_this_call(n, m.helper) or M.is_lp_call(n, '_realLP', m.lpname)
        modes = M.MODES if m.field == 'Real' else ('SYNCMODE_AUTO',)
        for mode in modes:
            A = M.mode_assume(mode)
            ok, p, _ = must(fn, A, real_effect)
            rep.check(ok, 'R06.1', m.key + '|' + mode + '|real-effect', w, 'real LP mutated via %s/_realLP->%s' % (m.helper, m.lpname), 'a normal path does not mutate the real LP', path=p)
            ok, p, _ = must(fn, A, lambda n: M.is_this_call(n, '_invalidateSolution'))
            rep.check(ok, 'R06.1', m.key + '|' + mode + '|invalidate', w, 'cached solution invalidated', 'a normal path keeps the cached solution/status', path=p)
        # index arguments are forwarded in place: the k-th int parameter of the modifier is the k-th int argument of the mutation
        if m.field == 'Real':
            ev = reachable_events(fn, None, real_effect)
            for c in ev:
                ints = [(k, p[0]) for k, p in enumerate(fn.params) if p[1] == 'int']
                cargs = [strip(a) for a in c.args()]
                got = [a.n for a in cargs if a.k == 'DeclRefExpr' and a.dk == 'parm' and a.t == 'int']
                rep.check(got == [nm for _, nm in ints], 'R06.1', m.key + '|index-args', '%s:%d' % (fn.file, c.l), 'indices forwarded in order %s' % got,
                          'index parameters %s are forwarded as %s' % ([nm for _, nm in ints], got))

    helpers(fb, rep)
    mirrored(fb, rep)
    scale_flag(fb, rep)
    invalidate_body(fb, rep)
    solver_overrides(fb, rep)
    basis_notifications(fb, rep)
    perm_loops(fb, rep)


# ---------------------------------------------------------------------------------------------------
HELPER = re.compile(r'^_(add|change|remove)(Rows|Cols|Row|Col|Lhs|Rhs|Range|Lower|Upper|Bounds|Element)Real$')


def helpers(fb, rep):
    rep.rule('R06.2', '_...Real helpers: LP mutation of the own quantity; solver-loaded arm re-derives _hasBasis; stored-basis arrays are touched only in the index domain of the quantity', floor=60)
    hs = [f for f in fb.methods_of(C) if HELPER.match(f.short)]
    if len(hs) < 25:
        raise AnalysisBroken('only %d _...Real helpers found (25 confirmed)' % len(hs))
    for f in sorted(hs, key=lambda f: f.line):
        mt = HELPER.match(f.short)
        verb, what = mt.group(1), mt.group(2)
        key = f.short + '(' + ','.join(M.short_t(t) for _, t in f.params) + ')'
        w = f.where()
        lpname = verb + what
        ok, p, _ = must(f, None, lambda n: M.is_lp_call(n, '_realLP', lpname))
        rep.check(ok, 'R06.2', key + '|lp-mutation', w, '_realLP->%s on every path' % lpname, 'a path does not call _realLP->%s' % lpname, path=p)
        # solver-loaded arm
        A = Assume(atoms={'_isRealLPLoaded': True})

        def hb_from_solver(n):
            return n.k == 'BinaryOperator' and n.o == '=' and render(n.kids[0]) == '_hasBasis' and 'basis().status()' in render(n.kids[1]) and 'NO_PROBLEM' in render(n.kids[1])
        ok, p, _ = must(f, A, hb_from_solver)
        rep.check(ok, 'R06.2', key + '|loaded-arm', w, '_hasBasis re-derived from the solver basis status', 'with the LP loaded in the solver _hasBasis is not re-derived', path=p)
        # index domains of the stored-basis arrays (LP held outside the solver)
        rowish = what in M.ROWISH
        colish = what in M.COLISH
        own = '_basisStatusRows' if rowish else '_basisStatusCols' if colish else None
        other = '_basisStatusCols' if rowish else '_basisStatusRows' if colish else None
        # kinds of int parameters from their position in the LP call
        kinds = {}
        for n in f.nodes:
            if M.is_lp_call(n, '_realLP', lpname):
                a = [strip(x) for x in n.args()]
                if what == 'Element':
                    for pos, kd in ((0, 'row'), (1, 'col')):
                        if pos < len(a) and a[pos].k == 'DeclRefExpr' and a[pos].dk == 'parm':
                            kinds[a[pos].n] = kd
                elif a and a[0].k == 'DeclRefExpr' and a[0].dk == 'parm' and a[0].t == 'int':
                    kinds[a[0].n] = 'row' if rowish else 'col'
        # loop variables bounded by numRows()/numCols()
        for n in f.nodes:
            if n.k == 'ForStmt':
                init = n.kid('init')
                txt = render(init) if init is not None else ''
                cond = render(n.kid('cond')) if n.kid('cond') is not None else ''
                # a bound held in a local that was initialised from the LP dimension counts as that dimension
                for x in (n.kid('cond').walk() if n.kid('cond') is not None else []):
                    if x.k == 'DeclRefExpr' and x.dk == 'local':
                        for v in f.nodes:
                            if v.k == 'VarDecl' and v.n == x.n and v.c:
                                cond += ' ' + render(v.kids[0])
                for v in [x for x in (init.walk() if init is not None else []) if x.k == 'VarDecl']:
                    if 'numRows()' in txt or 'numRows()' in cond:
                        kinds[v.n] = 'row'
                    elif 'numCols()' in txt or 'numCols()' in cond:
                        kinds[v.n] = 'col'
        touched = False
        for n in f.nodes:
            if f.in_assert(n):
                continue
            arr, idx = arr_of(n)
            if arr in ('_basisStatusRows', '_basisStatusCols'):
                touched = True
                want = 'row' if arr == '_basisStatusRows' else 'col'
                ix = strip(idx)
                # perm[i] has the kind of i; size()-1 of the same array is fine
                nm = None
                for x in ix.walk():
                    if x.k == 'DeclRefExpr' and x.dk in ('parm', 'local') and x.t == 'int':
                        nm = x.n
                        break
                kd = kinds.get(nm)
                ik = '%s|%s[%s]' % (key, arr, render(ix))
                if arr in render(ix):
                    rep.ok('R06.2', ik, '%s:%d' % (f.file, n.l), 'index derived from the array itself')
                elif kd is None:
                    rep.unrec('R06.2', ik, '%s:%d' % (f.file, n.l), 'index domain of %s unknown' % render(ix))
                else:
                    rep.check(kd == want, 'R06.2', ik, '%s:%d' % (f.file, n.l), '%s index into %s' % (kd, arr), '%s is subscripted with the %s index %s' % (arr, 'row' if kd == 'row' else 'column', render(ix)))
            if n.k == 'CXXMemberCallExpr' and n.short in ('append', 'removeLast', 'reSize') and M.obj_text(n) in ('_basisStatusRows', '_basisStatusCols'):
                touched = True
                arr = M.obj_text(n)
                if what == 'Element':
                    rep.bad('R06.2', '%s|%s.%s' % (key, arr, n.short), '%s:%d' % (f.file, n.l), 'changing an element must not resize the stored basis')
                else:
                    rep.check(arr == own, 'R06.2', '%s|%s.%s' % (key, arr, n.short), '%s:%d' % (f.file, n.l), '%s resized with its own dimension' % arr,
                              '%s of a %s resizes %s (the %s array)' % (f.short, 'row' if rowish else 'column', arr, 'column' if rowish else 'row'))
                    if n.short == 'append' and verb == 'add':
                        st = render(n.args()[-1])
                        if rowish:
                            rep.check(st == 'BASIC', 'R06.2', '%s|%s.append-status' % (key, arr), '%s:%d' % (f.file, n.l), 'new rows enter the basis as BASIC slack', 'a new row is appended with status %s (the basis would lose its dimension)' % st)
                        else:
                            rep.check(st in ('ON_LOWER', 'ON_UPPER', 'ZERO', 'FIXED'), 'R06.2', '%s|%s.append-status|%s' % (key, arr, st), '%s:%d' % (f.file, n.l), 'new columns enter nonbasic (%s)' % st,
                                      'a new column is appended with status %s (the basis would gain a basic variable without a row)' % st)
        if verb in ('add', 'remove') and not touched:
            rep.bad('R06.2', key + '|stored-basis', w, 'a structural change does not maintain the stored basis arrays')
        # unloaded arm either keeps the arrays consistent or drops the basis: every assignment to _hasBasis there is `false`
        for n in f.nodes:
            if n.k == 'BinaryOperator' and n.o == '=' and render(n.kids[0]) == '_hasBasis' and not hb_from_solver(n):
                rep.check(render(n.kids[1]) == 'false', 'R06.2', key + '|unloaded-hasBasis', '%s:%d' % (f.file, n.l), '_hasBasis = false', '_hasBasis is set to %s outside the solver-loaded arm' % render(n.kids[1]))


# ---------------------------------------------------------------------------------------------------
def mirrored(fb, rep):
    rep.rule('R06.3', 'SPxLPBase storage primitives: whenever the row-wise copy of the matrix is mutated the column-wise copy is mutated too, and vice versa (dominance / post-dominance pairing)', floor=24)
    from engine import always_with
    for inst in ('double', 'Rational'):
        L = 'soplex::SPxLPBase<%s>' % inst
        rset, cset = 'soplex::LPRowSetBase<%s>::' % inst, 'soplex::LPColSetBase<%s>::' % inst
        if rset[:-2] not in fb.classes or cset[:-2] not in fb.classes:
            raise AnalysisBroken('LPRowSetBase/LPColSetBase<%s> not found' % inst)
        STRUCT = ('add', 'add2', 'remove', 'clear', 'xtend', 'create', 'value', 'index', 'set_size', 'remove2')

        for nm in ('doAddRow', 'doAddRows', 'doAddCol', 'doAddCols', 'doRemoveRow', 'doRemoveRows', 'doRemoveCol', 'doRemoveCols', 'changeElement', 'changeRow', 'changeCol', 'clear'):
            fs = [f for f in fb.find(L + '::' + nm) if not (f.params and ('SPxRowId' in f.params[0][1] or 'SPxColId' in f.params[0][1]))]
            if not fs:
                raise AnalysisBroken('%s::%s not found' % (L, nm))
            for f in fs:
                alias = {}
                for v in f.nodes:
                    if v.k == 'VarDecl' and v.c and v.x.get('ref'):
                        t = render(v.kids[0])
                        if t.startswith('rowVector_w('):
                            alias[v.n] = 'row'
                        elif t.startswith('colVector_w('):
                            alias[v.n] = 'col'

                def side(n):
                    if n.k != 'CXXMemberCallExpr' or n.short not in STRUCT:
                        return None
                    callee = fb.funcs.get(n.u)
                    if callee is not None and callee.const:
                        return None
                    if n.n.startswith(rset):
                        return 'row'
                    if n.n.startswith(cset):
                        return 'col'
                    o = n.obj()
                    if o is None:
                        return None
                    t = render(o)
                    if t.startswith('rowVector_w('):
                        return 'row'
                    if t.startswith('colVector_w('):
                        return 'col'
                    if o.k == 'DeclRefExpr' and o.n in alias:
                        return alias[o.n]
                    return None
                key = 'SPxLPBase<%s>::%s(%s)' % (inst, nm, ','.join(M.short_t(t) for _, t in f.params))
                rows = [n for n in f.nodes if side(n) == 'row' and not f.in_assert(n)]
                cols = [n for n in f.nodes if side(n) == 'col' and not f.in_assert(n)]
                if not rows or not cols:
                    rep.bad('R06.3', key + '|both-sides', f.where(), 'only one copy of the matrix is mutated (row-wise events %d, column-wise events %d)' % (len(rows), len(cols)))
                    continue
                lone = always_with(f, lambda n: side(n) == 'row' and not f.in_assert(n), lambda n: side(n) == 'col' and not f.in_assert(n))
                rep.check(not lone, 'R06.3', key + '|row=>col', f.where(), '%d row-wise mutations each accompanied by a column-wise one' % len(rows),
                          'row-wise mutation %s (line %s) has no column-wise companion on its paths' % (render(lone[0]) if lone else '', lone[0].l if lone else ''))
                lone = always_with(f, lambda n: side(n) == 'col' and not f.in_assert(n), lambda n: side(n) == 'row' and not f.in_assert(n))
                rep.check(not lone, 'R06.3', key + '|col=>row', f.where(), '%d column-wise mutations each accompanied by a row-wise one' % len(cols),
                          'column-wise mutation %s (line %s) has no row-wise companion on its paths' % (render(lone[0]) if lone else '', lone[0].l if lone else ''))


# ---------------------------------------------------------------------------------------------------
def scale_flag(fb, rep):
    rep.rule('R06.4', 'every call of a real-LP mutator with a scale parameter made by a public modifier or a _...Real helper passes the LP\'s own isScaled()', floor=25)
    for f in fb.methods_of(C):
        # scope: the user-facing modification interface (public modifiers and their _...Real helpers); the exact solver's
        # internal LP transformations operate on an LP they set up themselves
        if not (M.PAT.match(f.short) or HELPER.match(f.short)):
            continue
        for n in f.nodes:
            if n.k != 'CXXMemberCallExpr' or M.obj_text(n) != '_realLP':
                continue
            callee = fb.funcs.get(n.u)
            if callee is None or not callee.params or callee.params[-1][0] != 'scale':
                continue
            if not re.match(r'^(add|change)', n.short):
                continue
            a = n.args()
            last = a[len(callee.params) - 1] if len(a) >= len(callee.params) else None
            key = '%s(%s)|_realLP->%s' % (f.short, ','.join(M.short_t(t) for _, t in f.params), n.short)
            wh = '%s:%d' % (f.file, n.l)
            if last is None:
                rep.unrec('R06.4', key, wh, 'scale argument not found')
                continue
            txt = render(last)
            ok = False
            if '_realLP->isScaled()' in txt:
                ok = True
            else:
                s = strip(last)
                if s.k == 'DeclRefExpr' and s.dk == 'local':
                    for v in f.nodes:
                        if v.k == 'VarDecl' and v.n == s.n and v.c and '_realLP->isScaled()' in render(v.kids[0]):
                            ok = True
            # data that is already in the LP's scaled space is exempt: calls inside the solver that pass true/false explicitly are listed
            rep.check(ok, 'R06.4', key, wh, 'scale = _realLP->isScaled()', 'new data is handed to the real LP with scale=%s instead of _realLP->isScaled(): on a persistently scaled LP the value is stored unscaled' % (txt or 'default(false)'))


def invalidate_body(fb, rep):
    rep.rule('R06.5', '_invalidateSolution drops status, real and rational solution', floor=5)
    f = fb.one(C + '::_invalidateSolution')
    w = f.where()

    def assign(lhs, rhs):
        return lambda n: n.k == 'BinaryOperator' and n.o == '=' and render(n.kids[0]) == lhs and render(n.kids[1]) == rhs
    for lhs, rhs in (('_status', 'UNKNOWN'), ('_hasSolReal', 'false'), ('_hasSolRational', 'false')):
        ok, p, _ = must(f, None, assign(lhs, rhs))
        rep.check(ok, 'R06.5', '_invalidateSolution|' + lhs, w, '%s = %s' % (lhs, rhs), '%s is not reset to %s' % (lhs, rhs), path=p)
    for o in ('_solReal', '_solRational'):
        ok, p, _ = must(f, None, lambda n, o=o: n.k == 'CXXMemberCallExpr' and n.short == 'invalidate' and M.obj_text(n) == o)
        rep.check(ok, 'R06.5', '_invalidateSolution|' + o, w, o + '.invalidate()', o + ' is not invalidated', path=p)


# ---------------------------------------------------------------------------------------------------
BASIS_NOTIFY = {'doRemoveRow': 'removedRow', 'doRemoveRows': 'removedRows', 'doRemoveCol': 'removedCol', 'doRemoveCols': 'removedCols',
                'changeRow': 'changedRow', 'changeCol': 'changedCol', 'changeElement': 'changedElement', 'addedRows': 'addedRows', 'addedCols': 'addedCols'}
SPLIT = {'changeBounds': ('changeLower', 'changeUpper'), 'changeRange': ('changeLhs', 'changeRhs')}


def solver_overrides(fb, rep):
    rep.rule('R06.6', 'SPxSolverBase overrides of LP mutators forward their parameters in order to the base LP, un-initialise the solver and notify the basis in the matching index domain', floor=60)
    S = 'soplex::SPxSolverBase<double>'
    B = 'soplex::SPxLPBase<double>'
    fs = [f for f in fb.methods_of(S) if f.file.endswith('changesoplex.hpp') and re.match(r'^(change(?!.*Status)|doRemove|added)', f.short)]
    if len(fs) < 28:
        raise AnalysisBroken('only %d solver overrides found in changesoplex.hpp (28 confirmed)' % len(fs))
    def hook(n, txt):
        # "the new value differs from the stored one" and "a basis exists" are the preconditions under which the override has work to do
        if txt.startswith('(new') and ' != ' in txt:
            return True
        if txt == '(status() > NO_PROBLEM)':
            return True
        if txt in ('(i < 0)', '((i < 0) || (j < 0))', '(n < 0)'):
            return False
        if txt == '(n > 0)':
            return True
        return None
    A = Assume(hook=hook)
    for f in sorted(fs, key=lambda f: f.line):
        key = 'SPxSolverBase::%s(%s)' % (f.short, ','.join(M.short_t(t) for _, t in f.params))
        w = f.where()
        names = SPLIT.get(f.short, (f.short,))
        pn = [p[0] for p in f.params]
        for nm in names:
            def base_call(n, nm=nm):
                if n.k != 'CXXMemberCallExpr' or n.short != nm:
                    return False
                if n.n.startswith(B + '::'):
                    return not n.x.get('vc')
                # changeBounds forwards to the solver's own changeLower/changeUpper
                return f.short in SPLIT and n.n.startswith(S + '::')
            ok, p, _ = must(f, A, base_call)
            rep.check(ok, 'R06.6', key + '|forwards|' + nm, w, 'forwards to %s on every path on which the value changes' % nm, 'a path does not forward to %s' % nm, path=p)
            for c in [n for n in f.nodes if base_call(n)]:
                got = [strip(a).n if strip(a).k == 'DeclRefExpr' and strip(a).dk == 'parm' else render(a) for a in c.args() if a.k != 'CXXDefaultArgExpr']
                if len(names) == 1:
                    exp = pn
                    good = got == exp
                else:
                    vals = [x for x in pn if x not in ('scale',) and not (f.params[pn.index(x)][1] == 'int')]
                    which = vals[names.index(nm)] if len(vals) == 2 else None
                    exp = [x for x in pn if x not in vals or x == which]
                    good = got == exp
                    if not good and len(vals) == 2 and which == vals[1] and got == [x for x in pn if x not in vals or x == vals[0]]:
                        # documented idiom: when both sides are equal within epsilon the right-hand side is set to the left-hand side
                        guard = [a for a in f.ancestors(c) if a.k == 'IfStmt' and render(a.kid('cond')).startswith('EQ(%s, %s' % (vals[0], vals[1]))]
                        if guard and any(x.i == c.i for x in guard[0].kid('then').walk()):
                            rep.accepted_idioms.append('%s: %s(%s) under EQ(%s, %s, eps) - an equality row is stored with identical sides' % (key, nm, ', '.join(got), vals[0], vals[1]))
                            good = True
                rep.check(good, 'R06.6', key + '|args|%s|%d' % (nm, sum(1 for x in f.nodes if base_call(x) and x.i < c.i)), '%s:%d' % (f.file, c.l), '%s(%s)' % (nm, ', '.join(got)), '%s is called with (%s), expected (%s)' % (nm, ', '.join(got), ', '.join(exp)))
        if f.short not in SPLIT:
            ok, p, _ = must(f, A, lambda n: n.k == 'CXXMemberCallExpr' and n.short == 'unInit')
            rep.check(ok, 'R06.6', key + '|unInit', w, 'unInit() whenever the data changed and a basis exists', 'a path leaves the solver initialised on stale data', path=p)
        if f.short in BASIS_NOTIFY:
            want = BASIS_NOTIFY[f.short]
            calls = [n for n in f.nodes if n.k == 'CXXMemberCallExpr' and n.n.startswith('soplex::SPxBasisBase<double>::') and re.match(r'^(removed|changed|added)', n.short)]
            rep.check(len(calls) >= 1 and all(c.short == want for c in calls), 'R06.6', key + '|basis-notify', w, 'notifies the basis with %s' % want,
                      'the basis is notified with %s, expected %s' % (sorted(set(c.short for c in calls)), want))
            for c in calls:
                got = [strip(a).n if strip(a).k == 'DeclRefExpr' and strip(a).dk == 'parm' else render(a) for a in c.args()]
                exp = [x for x in pn if x != 'scale' and not x.startswith('new') and x != 'val'][:len(got)]
                rep.check(got == exp, 'R06.6', key + '|basis-notify-args', '%s:%d' % (f.file, c.l), '%s(%s)' % (c.short, ', '.join(got)), '%s(%s), expected (%s)' % (c.short, ', '.join(got), ', '.join(exp)))


def basis_notifications(fb, rep):
    rep.rule('R06.8', 'SPxBasisBase::changedRow/changedCol/changedElement drop the factorization and restart from the stored descriptor on every path', floor=6)
    Bc = 'soplex::SPxBasisBase<double>'
    for nm in ('changedRow', 'changedCol', 'changedElement'):
        f = fb.one(Bc + '::' + nm)
        for eff in ('invalidate', 'restoreInitialBasis'):
            ok, p, _ = must(f, None, lambda n, eff=eff: n.k == 'CXXMemberCallExpr' and n.short == eff)
            rep.check(ok, 'R06.8', 'SPxBasisBase::%s|%s' % (nm, eff), f.where(), '%s() on every path' % eff,
                      'a path through %s keeps the factorization / basis vectors of the matrix before the change (%s() is skipped): in one of the two representations the changed coefficient is part of the basis matrix' % (nm, eff), path=p)


# ---------------------------------------------------------------------------------------------------
def perm_loops(fb, rep):
    rep.rule('R06.7', 'a loop that remaps a per-row/column array with perm[] after a permutation removal runs over the dimension before the removal', floor=6)
    for f in fb.methods_of(C):
        if not re.match(r'^_?remove(Rows|Cols)(Real|Rational)$', f.short) or len(f.params) != 1:
            continue
        perm = f.params[0][0]
        key = f.short + '(int *)'
        # the removal call
        rem = [n for n in f.nodes if n.k == 'CXXMemberCallExpr' and n.short in ('removeRows', 'removeCols', '_removeRowsReal', '_removeColsReal') and (M.obj_text(n) in ('_realLP', '_rationalLP') or n.short.startswith('_'))]
        if not rem:
            rep.unrec('R06.7', key, f.where(), 'removal call not found')
            continue
        first = min(n.i for n in rem)
        firstline = min(n.l for n in rem)
        for loop in [n for n in f.nodes if n.k == 'ForStmt']:
            body = loop.kid('body')
            if body is None:
                continue
            remaps = [x for x in body.walk() if x.k in ('BinaryOperator', 'CXXOperatorCallExpr') and x.o == '=' and not f.in_assert(x) and (perm + '[') in render(x.kids[0] if x.k == 'BinaryOperator' else x.args()[0])]
            if not remaps:
                continue
            init = loop.kid('init')
            cond = loop.kid('cond')
            bound_txt = (render(init) if init is not None else '') + ' ; ' + (render(cond) if cond is not None else '')
            # bound sources: calls evaluated at loop entry, or locals
            stale = False
            src = None
            for x in list(init.walk() if init is not None else []) + list(cond.walk() if cond is not None else []):
                if x.k == 'CXXMemberCallExpr' and x.short in ('numRows', 'numCols', 'numRowsRational', 'numColsRational', 'nRows', 'nCols') and loop.l > firstline:
                    stale = True
                    src = render(x)
                if x.k == 'DeclRefExpr' and x.dk == 'local':
                    # local initialised before the removal from a dimension getter
                    for v in f.nodes:
                        if v.k == 'VarDecl' and v.n == x.n and v.c and v.l < firstline and any(y.k == 'CXXMemberCallExpr' and y.short.startswith('num') for y in v.walk()):
                            src = x.n + ' (= ' + render(v.kids[0]) + ' before the removal)'
            ik = '%s|remap-loop|%s' % (key, render(remaps[0].kids[0] if remaps[0].k == 'BinaryOperator' else remaps[0].args()[0]).split('[')[0])
            inc = loop.kid('inc')
            asc = inc is not None and render(inc) in [v.n + '++' for v in (init.walk() if init is not None else []) if v.k == 'VarDecl'] + ['++' + v.n for v in (init.walk() if init is not None else []) if v.k == 'VarDecl']
            rep.check(asc, 'R06.7', ik + '|ascending', '%s:%d' % (f.file, loop.l), 'ascending pass (the containers compact order-preservingly: perm[i] <= i)',
                      'the remapping loop runs downwards although the removal keeps the survivors in order (perm[i] <= i): a slot is overwritten before it is read')
            rep.check(not stale, 'R06.7', ik, '%s:%d' % (f.file, loop.l), 'loop bound %s' % (src or bound_txt),
                      'the remapping loop is bounded by %s evaluated after the removal: entries at or beyond the new dimension (exactly those that move) are never visited' % src)
