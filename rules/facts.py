"""Fact base: runs E1 (bin/spxfacts) over the analysis units of /repo's *current* tree and gives
the rule engine typed access to functions, AST nodes, CFGs, classes, enums and globals.

The cache is keyed by the content of every file that can influence the analysis, so a check that
is invoked after /repo was edited always re-extracts; nothing is reused from a different tree."""
import glob
import hashlib
import json
import os
import shutil
import subprocess
import sys
import time
import fcntl
from concurrent.futures import ThreadPoolExecutor

VERIF = os.path.dirname(os.path.dirname(os.path.abspath(__file__)))
REPO = os.environ.get('SPX_REPO', '/repo')
SRC = os.path.join(REPO, 'src')
CACHE = os.path.join(VERIF, '.cache')
TOOL = os.path.join(VERIF, 'bin', 'spxfacts')
CLANG_RES = '/usr/lib/llvm-14/lib/clang/14.0.6/include'

# front-end errors that are known and documented (DESIGN 3.1): members that never instantiate
TOLERATED_ERRORS = [
    ("testsoplex.hpp", "'loadMatrixVecs' is a protected member"),
    ("spxsolver.hpp", "no member named 'basSe'"),
]


class AnalysisBroken(Exception):
    pass


def config_dir():
    """directory that holds soplex/config.h for the current tree"""
    d = os.path.join(REPO, '_build')
    if os.path.exists(os.path.join(d, 'soplex', 'config.h')):
        return d
    alt = os.path.join(CACHE, 'cfgbuild')
    if not os.path.exists(os.path.join(alt, 'soplex', 'config.h')):
        os.makedirs(alt, exist_ok=True)
        r = subprocess.run(['cmake', '-G', 'Ninja', '-S', REPO, '-B', alt], capture_output=True, text=True)
        if not os.path.exists(os.path.join(alt, 'soplex', 'config.h')):
            raise AnalysisBroken('cannot generate soplex/config.h: ' + r.stderr[-400:])
    return alt


def source_files():
    out = []
    for root, dirs, files in os.walk(SRC):
        dirs.sort()
        for f in sorted(files):
            if f.endswith(('.h', '.hpp', '.cpp', '.c')):
                out.append(os.path.join(root, f))
    return out


def tree_hash(extra=()):
    h = hashlib.sha256()
    cfg = os.path.join(config_dir(), 'soplex', 'config.h')
    for p in source_files() + [cfg, TOOL, os.path.join(VERIF, 'units', 'inst_real.cpp'), os.path.join(VERIF, 'units', 'controls.cpp')] + list(extra):
        h.update(p.encode())
        try:
            with open(p, 'rb') as fh:
                h.update(fh.read())
        except OSError:
            h.update(b'<missing>')
    return h.hexdigest()[:20]


def units():
    """(tag, file, main_only) for every analysis unit: U-inst + every library .cpp"""
    us = [('inst', os.path.join(VERIF, 'units', 'inst_real.cpp'), False),
          ('ctl', os.path.join(VERIF, 'units', 'controls.cpp'), True)]
    for p in sorted(glob.glob(os.path.join(SRC, 'soplex', '*.cpp'))) + [os.path.join(SRC, 'soplex_interface.cpp')]:
        us.append((os.path.basename(p).replace('.', '_'), p, True))
    return us


def flags():
    return ['-std=gnu++14', '-I' + SRC, '-I' + config_dir(), '-ffp-contract=off', '-ferror-limit=0', '-w',
            '-I' + CLANG_RES]


def _run_unit(args):
    tag, path, main_only, out = args
    root = os.path.join(VERIF, 'units') if tag == 'ctl' else SRC
    cmd = [TOOL, '--out', out, '--tag', tag, '--root', root, '--exclude', os.path.join(SRC, 'soplex', 'external')]
    if main_only:
        cmd.append('--main-only')
    cmd += [path, '--'] + flags()
    r = subprocess.run(cmd, capture_output=True, text=True)
    errs = [l for l in r.stderr.splitlines() if ' error: ' in l]
    bad = [l for l in errs if not any(a in l and b in l for a, b in TOLERATED_ERRORS)]
    return tag, r.returncode, bad, errs, r.stdout.strip()


def extract(log=None):
    """returns the cache directory holding the facts of the current tree"""
    if not os.path.exists(TOOL):
        raise AnalysisBroken('bin/spxfacts missing: run MANIFEST.setup_cmd (./setup.sh)')
    os.makedirs(CACHE, exist_ok=True)
    h = tree_hash()
    d = os.path.join(CACHE, 'facts-' + h)
    lock = open(os.path.join(CACHE, 'lock'), 'w')
    fcntl.flock(lock, fcntl.LOCK_EX)
    try:
        if os.path.exists(os.path.join(d, 'DONE')):
            os.utime(os.path.join(d, 'DONE'))
            return d
        if os.path.exists(d):
            shutil.rmtree(d)
        tmp = d + '.tmp'
        if os.path.exists(tmp):
            shutil.rmtree(tmp)
        os.makedirs(tmp)
        t0 = time.time()
        jobs = [(t, p, m, tmp) for t, p, m in units()]
        with ThreadPoolExecutor(max_workers=min(16, len(jobs))) as ex:
            res = list(ex.map(_run_unit, jobs))
        meta = {'units': [], 'wall_s': None}
        for tag, rc, bad, errs, out in res:
            meta['units'].append({'tag': tag, 'rc': rc, 'tolerated_errors': len(errs) - len(bad), 'summary': out})
            if bad:
                shutil.rmtree(tmp)
                raise AnalysisBroken('front-end error in unit %s: %s' % (tag, bad[0][:300]))
            if 'spxfacts unit=' not in out:
                shutil.rmtree(tmp)
                raise AnalysisBroken('extractor produced no summary for unit %s (rc=%d)' % (tag, rc))
        meta['wall_s'] = round(time.time() - t0, 2)
        json.dump(meta, open(os.path.join(tmp, 'META.json'), 'w'))
        os.rename(tmp, d)
        open(os.path.join(d, 'DONE'), 'w').close()
        # keep the three most recent fact directories only (disk is limited)
        olds = sorted(glob.glob(os.path.join(CACHE, 'facts-*')), key=lambda p: os.path.getmtime(p))
        olds = [o for o in olds if not o.endswith('.tmp') and o != d]
        for o in olds[:-2]:
            shutil.rmtree(o, ignore_errors=True)
        return d
    finally:
        fcntl.flock(lock, fcntl.LOCK_UN)
        lock.close()


# ------------------------------------------------------------------------------------------------
CALL_KINDS = ('CallExpr', 'CXXMemberCallExpr', 'CXXOperatorCallExpr', 'CXXConstructExpr', 'CXXTemporaryObjectExpr')


class Node(object):
    __slots__ = ('fn', 'i', 'k', 'l', 't', 'n', 'u', 'o', 'v', 'dk', 'c', 'x')

    def __init__(self, fn, d, S):
        self.fn = fn
        self.i = d['i']
        self.k = S[d['k']]
        self.l = d.get('l', 0)
        self.t = S[d['t']] if 't' in d else ''
        self.n = S[d['n']] if 'n' in d else None
        self.u = S[d['u']] if 'u' in d else None
        self.o = S[d['o']] if 'o' in d else None
        self.v = d.get('v')
        self.dk = d.get('dk')
        self.c = d['c']
        x = {}
        for key in ('cond', 'then', 'else', 'body', 'init', 'inc', 'sub', 'pi', 'ext', 'st', 'ref', 'vc', 'ar', 'arr', 'pl'):
            if key in d:
                x[key] = d[key]
        for key in ('at', 'ct'):
            if key in d:
                x[key] = S[d[key]]
        self.x = x

    # ---- tree access
    @property
    def kids(self):
        ns = self.fn.nodes
        return [ns[j] for j in self.c]

    def kid(self, name):
        j = self.x.get(name)
        return None if j is None else self.fn.nodes[j]

    def walk(self):
        """self and all descendants (pre-order)"""
        st = [self]
        ns = self.fn.nodes
        while st:
            n = st.pop()
            yield n
            for j in reversed(n.c):
                st.append(ns[j])

    @property
    def parent(self):
        return self.fn.parent_of(self)

    def is_call(self):
        return self.k in CALL_KINDS

    @property
    def short(self):
        """unqualified callee / member name"""
        if self.n is None:
            return None
        s = self.n
        # strip template argument lists before taking the last component
        depth = 0
        last = 0
        i = 0
        while i < len(s):
            ch = s[i]
            if ch == '<' and not s.startswith('operator', max(0, i - 8), i) :
                depth += 1
            elif ch == '>' and depth > 0:
                depth -= 1
            elif ch == ':' and depth == 0 and i + 1 < len(s) and s[i + 1] == ':':
                last = i + 2
                i += 1
            i += 1
        r = s[last:]
        p = r.find('<')
        if p > 0 and not r.startswith('operator'):
            r = r[:p]
        return r

    def args(self):
        """argument nodes of a call (object expression excluded)"""
        ks = self.kids
        if self.k == 'CXXMemberCallExpr':
            return ks[1:]
        if self.k == 'CXXOperatorCallExpr':
            return ks[1:]  # first arg is the object for member operators
        if self.k == 'CallExpr':
            return ks[1:]
        return ks

    def obj(self):
        """object expression of a member call / member access, or None"""
        if self.k == 'CXXMemberCallExpr':
            m = self.kids[0]
            if m.k == 'MemberExpr' and m.c:
                return m.kids[0]
            return None
        if self.k == 'MemberExpr' and self.c:
            return self.kids[0]
        return None

    def where(self):
        return '%s:%d' % (self.fn.file, self.l)

    def __repr__(self):
        return '<%s #%d %s>' % (self.k, self.i, self.n or self.o or self.v or '')


class Block(object):
    __slots__ = ('id', 'e', 't', 'cond', 'lab', 's', 'nr', 'dead')

    def __init__(self, d):
        self.id = d['id']
        self.e = d['e']
        self.t = d.get('t')
        self.cond = d.get('cond')
        self.lab = d.get('lab')
        self.s = d['s']
        self.nr = bool(d.get('nr'))
        self.dead = [(-2 - x) for x in self.s if x <= -2]


class Func(object):
    def __init__(self, fb, d, S, file, unit):
        self.fb = fb
        self._d = d
        self._S = S
        self.file = file
        self.unit = unit
        self.u = S[d['u']]
        self.name = S[d['name']]
        self.short = S[d['short']]
        self.sig = S[d['sig']]
        self.line = d['line']
        self.endline = d['endline']
        self.cls = S[d['cls']] if 'cls' in d else None
        self.acc = d.get('acc')
        self.virtual = bool(d.get('virtual'))
        self.const = bool(d.get('const'))
        self.static = bool(d.get('static'))
        self.implicit = bool(d.get('implicit'))
        self.mk = d.get('mk')
        self.externc = bool(d.get('externc'))
        self.ov = [S[x] for x in d.get('ov', [])]
        self.params = [(S[p['n']], S[p['t']]) for p in d['params']]
        self.ret = S[d['ret']]
        self._nodes = None
        self._parent = None
        self._blocks = None

    @property
    def nodes(self):
        if self._nodes is None:
            S = self._S
            self._nodes = [Node(self, nd, S) for nd in self._d['nodes']]
        return self._nodes

    @property
    def body(self):
        return self.nodes[self._d['body']]

    @property
    def inits(self):
        S = self._S
        return [(S[i['f']], self.nodes[i['e']] if i['e'] >= 0 else None, bool(i['w'])) for i in self._d.get('inits', [])]

    def parent_of(self, node):
        if self._parent is None:
            p = {}
            for n in self.nodes:
                for j in n.c:
                    p[j] = n.i
            self._parent = p
        j = self._parent.get(node.i)
        return None if j is None else self.nodes[j]

    def ancestors(self, node):
        n = self.parent_of(node)
        while n is not None:
            yield n
            n = self.parent_of(n)

    @property
    def blocks(self):
        if self._blocks is None:
            self._blocks = {b['id']: Block(b) for b in self._d.get('cfg', {}).get('blocks', [])}
        return self._blocks

    @property
    def entry(self):
        return self._d['cfg']['entry']

    @property
    def exit(self):
        return self._d['cfg']['exit']

    def calls(self):
        return [n for n in self.nodes if n.k in CALL_KINDS and n.n]

    def in_assert(self, node):
        """True if node lies inside the condition (or failure arm) of an assert() expansion"""
        if not hasattr(self, '_assert_ids'):
            ids = set()
            for n in self.nodes:
                if n.k == 'ConditionalOperator':
                    e = n.kid('else')
                    if e is not None and e.k == 'CallExpr' and e.n == '__assert_fail':
                        for x in n.walk():
                            ids.add(x.i)
            self._assert_ids = ids
        return node.i in self._assert_ids

    def where(self):
        return '%s:%d' % (self.file, self.line)

    def __repr__(self):
        return '<Func %s %s @%s>' % (self.name, self.sig, self.where())


class FactBase(object):
    def __init__(self, d):
        self.dir = d
        self.meta = json.load(open(os.path.join(d, 'META.json')))
        self.funcs = {}
        self.by_name = {}
        self.by_short = {}
        self.classes = {}
        self.enums = {}
        self.globals = []
        self.files = set()
        for p in sorted(glob.glob(os.path.join(d, '*__*.json'))):
            j = json.load(open(p))
            S = j['S']
            self.files.add(j['file'])
            for fd in j['funcs']:
                f = Func(self, fd, S, j['file'], j['unit'])
                if f.u in self.funcs:
                    continue
                self.funcs[f.u] = f
                self.by_name.setdefault(f.name, []).append(f)
                self.by_short.setdefault(f.short, []).append(f)
            for cd in j['classes']:
                name = S[cd['name']]
                if name in self.classes:
                    continue
                c = {'name': name, 'u': S[cd['u']], 'file': j['file'], 'line': cd['line'],
                     'bases': [S[b] for b in cd['bases']],
                     'fields': [{'n': S[f['n']], 'q': S[f['q']], 'u': S[f['u']], 't': S[f['t']], 'init': bool(f.get('init')),
                                 'mut': bool(f.get('mut')), 'tk': f['tk']} for f in cd['fields']],
                     'methods': [dict(m, n=S[m['n']], u=S[m['u']], sig=S[m['sig']], ov=[S[x] for x in m.get('ov', [])])
                                 for m in cd['methods']],
                     'abstract': bool(cd.get('abstract')), 'copyctor': cd['copyctor'], 'copyassign': cd['copyassign'],
                     'dtor': cd['dtor']}
                self.classes[name] = c
            for ed in j['enums']:
                name = S[ed['name']]
                self.enums.setdefault(name, {'name': name, 'file': j['file'], 'line': ed['line'],
                                             'items': [(S[a], b) for a, b in ed['items']]})
            for gd in j['globals']:
                g = dict(gd, name=S[gd['name']], u=S[gd['u']], t=S[gd['t']], file=j['file'])
                if 'fn' in gd:
                    g['fn'] = S[gd['fn']]
                self.globals.append(g)
        # override map: base method usr -> [derived Func]
        self.overriders = {}
        for f in self.funcs.values():
            for b in f.ov:
                self.overriders.setdefault(b, []).append(f)

    # ---- lookup
    def find(self, name, sig=None, nparams=None):
        """functions by qualified name (with template arguments of the class), e.g.
        'soplex::SoPlexBase<double>::changeLhsReal'"""
        fs = self.by_name.get(name, [])
        if sig is not None:
            fs = [f for f in fs if f.sig == sig]
        if nparams is not None:
            fs = [f for f in fs if len(f.params) == nparams]
        return fs

    def one(self, name, **kw):
        fs = self.find(name, **kw)
        if len(fs) != 1:
            raise AnalysisBroken('anchor %s: expected exactly one definition, found %d' % (name, len(fs)))
        return fs[0]

    def methods_of(self, cls):
        return [f for f in self.funcs.values() if f.cls == cls]

    def resolve(self, call):
        """Func objects a call node may invoke (virtual calls: static target + all overriders in the program)"""
        out = []
        f = self.funcs.get(call.u)
        if f is not None:
            out.append(f)
        if call.x.get('vc'):
            seen = set([call.u])
            work = [call.u]
            while work:
                b = work.pop()
                for g in self.overriders.get(b, []):
                    if g.u not in seen:
                        seen.add(g.u)
                        out.append(g)
                        work.append(g.u)
        return out


_FB = None


def load(log=None):
    global _FB
    if _FB is None:
        d = extract(log)
        _FB = FactBase(d)
    return _FB


if __name__ == '__main__':
    t = time.time()
    fb = load()
    print('facts in', fb.dir, 'functions', len(fb.funcs), 'classes', len(fb.classes), 'enums', len(fb.enums),
          'globals', len(fb.globals), 'files', len(fb.files), 'wall %.1fs' % (time.time() - t))
    for u in fb.meta['units']:
        print('  ', u['summary'], 'tolerated_errors=%d' % u['tolerated_errors'])


# ------------------------------------------------------------------------------------------------
# E5: LLVM IR of the library units -> mutable globals and their uses (bin/spxglobals)

def ir_units():
    us = []
    for p in sorted(glob.glob(os.path.join(SRC, 'soplex', '*.cpp'))) + [os.path.join(SRC, 'soplex_interface.cpp')]:
        us.append(p)
    us.append(os.path.join(VERIF, 'units', 'controls.cpp'))
    return us


def _emit_bc(args):
    src, out = args
    cmd = ['clang++', '-std=gnu++14', '-I' + SRC, '-I' + config_dir(), '-ffp-contract=off', '-O0', '-Xclang', '-disable-O0-optnone',
           '-g1', '-emit-llvm', '-c', src, '-o', out, '-w']
    r = subprocess.run(cmd, capture_output=True, text=True)
    return src, r.returncode, r.stderr[-300:]


def ir_globals():
    """list of module records {file, functions, globals:[{name, demangled, tls, guard, uses:[...]}]} for the current tree"""
    tool = os.path.join(VERIF, 'bin', 'spxglobals')
    if not os.path.exists(tool):
        raise AnalysisBroken('bin/spxglobals missing: run ./setup.sh')
    d = extract()
    out = os.path.join(d, 'ir_globals.json')
    if os.path.exists(out):
        return json.load(open(out))['modules']
    lock = open(os.path.join(CACHE, 'lock-ir'), 'w')
    fcntl.flock(lock, fcntl.LOCK_EX)
    try:
        if os.path.exists(out):
            return json.load(open(out))['modules']
        irdir = os.path.join(d, 'ir')
        os.makedirs(irdir, exist_ok=True)
        jobs = [(s, os.path.join(irdir, os.path.basename(s) + '.bc')) for s in ir_units()]
        with ThreadPoolExecutor(max_workers=min(16, len(jobs))) as ex:
            res = list(ex.map(_emit_bc, jobs))
        for s, rc, err in res:
            if rc != 0:
                raise AnalysisBroken('cannot emit LLVM IR for %s: %s' % (s, err))
        r = subprocess.run([tool] + [o for _, o in jobs], capture_output=True, text=True)
        if r.returncode != 0:
            raise AnalysisBroken('spxglobals failed: ' + r.stderr[-300:])
        j = json.loads(r.stdout)
        json.dump(j, open(out + '.tmp', 'w'))
        os.rename(out + '.tmp', out)
        shutil.rmtree(irdir, ignore_errors=True)
        return j['modules']
    finally:
        fcntl.flock(lock, fcntl.LOCK_UN)
        lock.close()
