"""Generic shape rules, evaluated once over every function of the library and reported under the property that owns the function.

These rules state conventions of the code base that hold (nearly) everywhere today and whose violation at any one place changes
behaviour; each was confirmed by reading the minority instances, which are listed with a reason.  A property module calls
shapes.run(<id>, fb, rep): the instances inside the functions owned by that property (table OWNER below) become instances of
rules R<id>.S1 .. ; functions owned by no claimed property are counted but not reported.  Positive controls (units/controls.cpp)
must fire on every run and the program-wide instance counts must stay above the confirmed floors.

S1  no comparison with +-infinity is constant: `x <= infinity`, `x >= -infinity` (always true), `x > ... `: see INF_BAD
S2  a value that is "a position or -1" (result of pos()/number()/index(), an element of a permutation array) is compared with 0 only
    by `< 0` / `>= 0`: `> 0` and `<= 0` treat position 0 as "absent" (also: int locals that are initialised with or assigned -1)
S10 a loop variable bounded by nRows() / numRows...() is a row index, one bounded by nCols() / numCols...() a column index: it is passed only to
    getters / setters of that kind and subscripts only arrays of that kind
S11 argument selection: an argument named after one side (lower, lhs, min) or kind (row) is not passed to a parameter named after the other
S3  an ascending counting loop over a container starts at 0 - or at 1 when the element 0 was handled just before it
S4  a descending counting loop (`for(v = <computed>; v OP 0; --v)`) runs while v >= 0: `v > 0` skips the entry 0
S5  inside a loop over the positions 0..size()-1 of a sparse vector, the vector is read through index(p) / value(p) / element(p),
    never subscripted by index with the position
S6  an else-if chain whose two conditions are lower/upper (or sign) mirror images of each other has mirror-image arms: a token that is
    identical in both arms where its mirror image is expected is reported (table MIRROR_ASYMMETRIC lists the chains that are
    asymmetric for a reason)
S12 mirror switch arms: an arm labelled L whose body names the lower/upper mirror image of L has a sibling arm for the image that names L back
    (written after the seeded change C04-5, which deleted one of two swapping arms, was missed)
"""
import os
import re

from facts import AnalysisBroken
from engine import render, strip

# ------------------------------------------------------------------------------------------------ ownership of functions
FILE_OWNER = {
    'soplex_interface.cpp': 'C20',
    'clufactor_rational.hpp': 'C11', 'clufactor_rational.h': 'C11', 'slufactor_rational.hpp': 'C11', 'slufactor_rational.h': 'C11',
    'slufactor_rational.cpp': 'C11',
    'clufactor.hpp': 'C10', 'clufactor.h': 'C10', 'slufactor.hpp': 'C10', 'slufactor.h': 'C10', 'slinsolver.h': 'C10',
    'solverational.hpp': 'C03', 'ratrecon.hpp': 'C03', 'ratrecon.h': 'C03',
    'spxmainsm.hpp': 'C08', 'spxmainsm.h': 'C08', 'spxsimplifier.h': 'C08',
    'spxscaler.hpp': 'C09', 'spxscaler.h': 'C09', 'spxequilisc.hpp': 'C09', 'spxgeometsc.hpp': 'C09', 'spxleastsqsc.hpp': 'C09',
    'mpsinput.cpp': 'C13', 'mpsinput.h': 'C13', 'nameset.cpp': 'C13', 'nameset.h': 'C13',
    'rational.h': 'C12',
    'spxwritestate.hpp': 'C14',
    'spxdesc.hpp': 'C04', 'spxchangebasis.hpp': 'C04',
    'changesoplex.hpp': 'C06', 'spxlpbase.h': 'C06', 'lprowbase.h': 'C06', 'lpcolbase.h': 'C06',
    'solbase.h': 'C17',
}
for _f in ('dataset.h', 'dataarray.h', 'array.h', 'classarray.h', 'classset.h', 'datahashtable.h', 'datakey.h', 'idxset.h', 'idxset.cpp',
           'didxset.h', 'didxset.cpp', 'svsetbase.h', 'svectorbase.h', 'ssvectorbase.h', 'dsvectorbase.h', 'vectorbase.h', 'basevectors.h',
           'unitvectorbase.h', 'idlist.h', 'islist.h', 'sorter.h', 'updatevector.h', 'updatevector.hpp', 'lprowsetbase.h', 'lpcolsetbase.h',
           'stablesum.h', 'cring.h'):
    FILE_OWNER[_f] = 'C19'
for _f in ('enter.hpp', 'leave.hpp', 'spxsolve.hpp', 'spxsolver.hpp', 'spxsolver.h', 'spxbounds.hpp', 'spxshift.hpp', 'spxvecs.hpp', 'spxquality.hpp',
           'solvereal.hpp', 'spxautopr.hpp', 'spxdantzigpr.hpp', 'spxdevexpr.hpp', 'spxhybridpr.hpp', 'spxparmultpr.hpp', 'spxsteeppr.hpp',
           'spxweightpr.hpp', 'spxboundflippingrt.hpp', 'spxdefaultrt.hpp', 'spxfastrt.hpp', 'spxharrisrt.hpp', 'spxstarter.hpp', 'spxsumst.hpp',
           'spxvectorst.hpp', 'spxweightst.hpp', 'spxpricer.h', 'spxratiotester.h'):
    FILE_OWNER[_f] = 'C01'

# (file, regex on the unqualified function name) -> owner; first match wins, tried before FILE_OWNER
FUNC_OWNER = [
    (r'spxlpbase_(real|rational)\.hpp$', r'^(write|MPSwrite|MPSget|MPSformat|LPFwrite|getRowName|getColName|makename)', 'C12'),
    (r'spxlpbase_(real|rational)\.hpp$', r'^(read|MPSread|LPF|MPS)', 'C13'),
    (r'spxlpbase_(real|rational)\.hpp$', r'.', 'C06'),
    (r'spxbasis\.hpp$', r'^(readBasis|writeBasis|getColName|getRowName|makename)', 'C14'),
    (r'spxbasis\.hpp$', r'.', 'C04'),
    (r'(enter|leave)\.hpp$', r'^(computePrimalray|computeDualfarkas)', 'C02'),
    (r'spxsolver\.hpp$|spxsolve\.hpp$', r'^(getPrimalray|getDualfarkas)', 'C02'),
    (r'spxsolver\.hpp$|spxsolve\.hpp$', r'^(terminate|setTermination|isTimeLimitReached|terminationTime|terminationIter|terminationValue)', 'C16'),
    (r'soplex\.hpp$', r'^(set(Int|Real|Bool)Param|parseSettings|_parseSettings|setSettings|resetSettings|_isConsistent)', 'C15'),
    (r'soplex\.hpp$', r'^(saveSettingsFile|loadSettingsFile|writeBasisFile|readBasisFile|writeState|_readBasis)', 'C14'),
    (r'soplex\.hpp$', r'^(getBasisInd|multBasis|getBasisInverse)', 'C05'),
    (r'soplex\.hpp$', r'^(getBasis|setBasis|clearBasis|basis(Row|Col)Status|hasBasis|_isBasisValid|_load|_ensureRealLPLoaded)', 'C04'),
    (r'soplex\.hpp$', r'^(readFile|_readFile|writeFile|writeDualFile)', 'C12'),
    (r'soplex\.hpp$', r'Rational$|^_sync|^_rangeType|^_switchRangeType|^_ensureRationalLP|^_recompute', 'C07'),
    (r'soplex\.hpp$', r'^(add|change|remove|clearLP|_add|_change|_remove)', 'C06'),
    (r'soplex\.hpp$', r'^(operator=|SoPlexBase)$', 'C17'),
    (r'soplex\.hpp$', r'^(getPrimalRay|getDualFarkas|hasPrimalRay|hasDualFarkas)', 'C02'),
    (r'soplex\.hpp$', r'.', 'C01'),
]


OWNERS = set(FILE_OWNER.values()) | set(t[2] for t in FUNC_OWNER)


def owner(f):
    base = os.path.basename(f.file)
    for fr, nr, pid in FUNC_OWNER:
        if re.search(fr, f.file) and re.search(nr, f.short or ''):
            return pid
    return FILE_OWNER.get(base)


# ------------------------------------------------------------------------------------------------ helpers
def _dead(fb):
    """private / protected non-virtual member functions that nothing in the program calls or takes the address of"""
    called = set()
    for f in fb.funcs.values():
        for n in f.nodes:
            if n.u and (n.is_call() or n.k in ('DeclRefExpr', 'MemberExpr')):
                called.add(n.u)
    return set(f.u for f in fb.funcs.values() if f.cls and f.acc in ('private', 'protected') and not f.virtual and not f.ov and f.u not in called
               and f.mk is None)


def is_inf(n):
    """'+' / '-' when the expression is +-infinity (global soplex::infinity through casts), else None"""
    n = strip(n)
    r = render(n).replace(' ', '')
    m = re.fullmatch(r'\(*(?:\((?:double|R|Real)\)|R|Rational|double)*\(*(-?)\(*(?:soplex::)?infinity\)*', r)
    if not m:
        return None
    if not any(x.k == 'DeclRefExpr' and x.n and x.n.split('::')[-1] == 'infinity' for x in n.walk()):
        return None
    return '-' if m.group(1) else '+'


FLIP = {'<': '>', '<=': '>=', '>': '<', '>=': '<=', '==': '==', '!=': '!='}
# (operator with infinity on the right, sign of infinity): a comparison whose value does not depend on the other operand as long as that
# operand lies in [-infinity, infinity], which is the documented range of every bound, side and objective coefficient
INF_BAD = {('<=', '+'): 'always true', ('>=', '-'): 'always true', ('<', '-'): 'never true'}
# `x > infinity` occurs legitimately (values beyond the representable "infinity" 1e100 are tested for); it is not reported


def cmp_parts(n):
    """(op, lhs, rhs) of a built-in or overloaded comparison, else None"""
    if n.k == 'BinaryOperator' and n.o in FLIP:
        return n.o, n.kids[0], n.kids[1]
    if n.k == 'CXXOperatorCallExpr' and n.n:
        m = re.search(r'operator(<=|>=|<|>|==|!=)(<.*)?$', n.n)
        a = n.args()
        if m and len(a) == 2:
            return m.group(1), a[0], a[1]
    return None


# ------------------------------------------------------------------------------------------------ S6 mirror machinery
# Lower/upper symmetric code is written twice.  Two arms A, B of a chain are mirror images when there is a consistent renaming phi of the
# identifiers of A onto those of B in which every identifier maps to itself or to its image under one of the mirror families, every
# comparison between operands that were renamed is flipped together with the sign of an infinity it compares with, and everything else is
# equal (statements of a block in any order; == and != symmetric; string literals free).
FAMILIES = [
    [('lower', 'upper'), ('Lower', 'Upper'), ('LOWER', 'UPPER')],
    [('lo', 'up'), ('Lo', 'Up')],
    [('lhs', 'rhs'), ('Lhs', 'Rhs'), ('LHS', 'RHS')],
    [('left', 'right'), ('Left', 'Right')],
    [('LT', 'GT'), ('LE', 'GE'), ('LTrel', 'GTrel'), ('LErel', 'GErel'), ('operator<', 'operator>'), ('operator<=', 'operator>=')],
    [('min', 'max'), ('Min', 'Max'), ('MIN', 'MAX')],
    [('down', 'up'), ('Down', 'Up')],
]
# families that exchange kinds of objects, not sides: a comparison does not flip with them
KIND_FAMILIES = [
    [('row', 'col'), ('Row', 'Col'), ('rows', 'cols'), ('Rows', 'Cols'), ('ROW', 'COL'), ('ROWS', 'COLS'), ('R', 'C'), ('r', 'c')],
    [('ROW', 'COLUMN'), ('row', 'col'), ('Row', 'Col'), ('rows', 'cols'), ('Rows', 'Cols')],
    # primal ray of a column <-> Farkas proof of a row (computePrimalray4Col / computeDualfarkas4Row and vice versa)
    [('Primalray', 'Dualfarkas'), ('primal', 'dual'), ('Ray', 'Farkas'), ('Col', 'Row'), ('col', 'row')],
]
MIRS = []
for _fam in FAMILIES:
    _m = {}
    for _a, _b in _fam:
        _m[_a] = _b
        _m[_b] = _a
    MIRS.append(_m)
SIDE_MIRS = list(MIRS)
KIND_MIRS = []
for _fam in KIND_FAMILIES:
    _m = {}
    for _a, _b in _fam:
        _m[_a] = _b
        _m[_b] = _a
    KIND_MIRS.append(_m)


def side_changed(p, q):
    """is q the image of p under a family that exchanges sides (lower/upper, lhs/rhs, ...)?"""
    if p == q:
        return False
    ps = pieces(p)
    return any(''.join(m.get(x, x) for x in ps) == q for m in SIDE_MIRS)


def pieces(t):
    return re.findall(r'operator[<>]=?|[A-Z]+(?![a-z])|[A-Z]?[a-z]+|\d+|_+|[^A-Za-z\d_]+', t)


def images(t):
    """the identifier itself and its image under each mirror family"""
    out = {t}
    ps = pieces(t)
    for m in MIRS:
        out.add(''.join(m.get(p, p) for p in ps))
    return out


def is_zero(n):
    return render(strip(n)).replace('(double)', '').strip('()') in ('0', '0.0', '0.')


def _leafnames(n):
    return [x.short for x in n.walk() if x.n]


CAP = 48


def _prod(xs, ys):
    out = []
    for x in xs:
        for y in ys:
            out.append(x + y)
            if len(out) >= CAP:
                return out
    return out


def _unit(n):
    """a call or member access whose arguments are plain names / literals is one unit of renaming: lp.lower(j1) may map to lp.upper(j1) while
    lp.lower(j2) maps to itself"""
    if n.k in ('CXXMemberCallExpr', 'CallExpr', 'ArraySubscriptExpr', 'MemberExpr', 'DeclRefExpr'):
        if n.k in ('DeclRefExpr',):
            return True
        return all(y.k in ('DeclRefExpr', 'MemberExpr', 'IntegerLiteral', 'CXXThisExpr', 'ImplicitCastExpr', 'ArraySubscriptExpr', 'CXXMemberCallExpr', 'CallExpr', 'ParenExpr',
                           'CXXOperatorCallExpr', 'MaterializeTemporaryExpr', 'CXXBindTemporaryExpr')
                   for y in n.walk()) and len(list(n.walk())) <= 12
    return False


def mirror_alts(a, b):
    """all ways (up to CAP) in which a equals b up to renaming: a list of renamings, each a list of (text in a, text in b); [] = no way"""
    a, b = strip(a), strip(b)
    if a.k == 'ConditionalOperator' and b.k == 'ConditionalOperator' and a.fn.in_assert(a) and b.fn.in_assert(b):
        return [[]]            # assertions are not compared (their expansion carries line numbers)
    ia, ib = is_inf(a), is_inf(b)
    if ia or ib:
        return [[('@inf' + ia, '@inf' + ib)]] if (ia and ib) else []
    pa, pb = cmp_parts(a), cmp_parts(b)
    if pa and pb:
        (oa, la, ra), (ob, lb, rb) = pa, pb
        if oa in ('==', '!='):
            if oa != ob:
                return []
            return (_prod(mirror_alts(la, lb), mirror_alts(ra, rb)) + _prod(mirror_alts(la, rb), mirror_alts(ra, lb)))[:CAP]
        strict = ob not in (oa, FLIP[oa])
        if strict and ob not in ('<', '<=', '>', '>='):
            return []
        subs = [[]]
        infs = []
        for x, y in ((la, lb), (ra, rb)):
            ix, iy = is_inf(x), is_inf(y)
            if ix or iy:
                if not (ix and iy):
                    return []
                infs.append(ix != iy)
            else:
                subs = _prod(subs, mirror_alts(x, y))
                if not subs:
                    return []
        flipped = (ob[0] != oa[0])
        out = []
        for sub in subs:
            changed = any(side_changed(p, q) for p, q in sub if not p.startswith('@'))
            extra = []
            if strict:
                extra.append(('@op:' + render(a)[:40], '@op!' + render(b)[:40]))
            # a comparison with infinity: the operator, the sign of infinity and the side (lower / upper) of the other operand flip together
            if infs and (any(f != changed for f in infs) or flipped != changed):
                extra.append(('@infcmp:' + render(a)[:40], '@infcmp!' + render(b)[:40]))
            out.append(extra + sub)
        return out
    for x_, y_ in ((a, b), (b, a)):
        if x_.k == 'UnaryOperator' and x_.o in ('!', 'pre!') and x_.c and not (y_.k == 'UnaryOperator' and y_.o in ('!', 'pre!')):
            inner = mirror_alts(x_.kids[0], y_) if x_ is a else mirror_alts(y_, x_.kids[0])
            return [[('@neg:' + render(a)[:40], '@neg!' + render(b)[:40])] + r_ for r_ in inner]
    if a.k != b.k or len(a.c) != len(b.c):
        return []
    if a.k in ('StringLiteral', 'CharacterLiteral'):
        return [[]]
    if a.o != b.o:
        return []
    if a.k in ('IntegerLiteral', 'FloatingLiteral', 'CXXBoolLiteralExpr') and render(a) != render(b):
        return []
    na, nb = (a.short if a.n else None), (b.short if b.n else None)
    if (na is None) != (nb is None):
        return []
    if a.k == 'BinaryOperator' and a.o in ('&&', '||'):
        l1, r1, l2, r2 = a.kids[0], a.kids[1], b.kids[0], b.kids[1]
        return (_prod(mirror_alts(l1, l2), mirror_alts(r1, r2)) + _prod(mirror_alts(l1, r2), mirror_alts(r1, l2)))[:CAP]
    if a.k == 'CompoundStmt':
        rest = list(b.kids)
        acc = [[]]
        for x in a.kids:
            for y in rest:
                alt = mirror_alts(x, y)
                if alt:
                    acc = _prod(acc, alt)
                    rest.remove(y)
                    break
            else:
                return []
        return acc
    if na is not None and _unit(a) and _unit(b) and a.k != 'DeclRefExpr':
        # the whole access is the unit; its parts must still match structurally
        inner = [[]]
        for x, y in zip(a.kids, b.kids):
            inner = _prod(inner, mirror_alts(x, y))
            if not inner:
                return []
        return [[(render(a), render(b))]]
    acc = [[(na, nb)]] if na is not None else [[]]
    for x, y in zip(a.kids, b.kids):
        acc = _prod(acc, mirror_alts(x, y))
        if not acc:
            return []
    return acc


def renaming_defects(ren):
    """why the collected renaming is not a consistent mirror renaming ([] when it is)"""
    out = []
    fwd = {}
    for p, q in ren:
        if p.startswith('@neg:'):
            out.append('`%s` / `%s`: one side tests the negation of what its counterpart tests' % (p[5:], q[5:]))
            continue
        if p.startswith('@op:'):
            out.append('`%s` / `%s`: one comparison is strict where its counterpart is not' % (p[4:], q[4:]))
            continue
        if p.startswith('@infcmp:'):
            out.append('`%s` / `%s`: operator, sign of infinity and side of the compared quantity do not flip together' % (p[8:], q[8:]))
            continue
        if p.startswith('@inf'):
            continue
        fwd.setdefault(p, set()).add(q)
    for p, qs in sorted(fwd.items()):
        if len(qs) > 1:
            out.append('`%s` corresponds to `%s` in one place and to `%s` in another: one arm mixes the two sides' % (p, sorted(qs)[0], sorted(qs)[1]))
    return out


def best(alts):
    """(defects, renaming) of the alternative with the fewest defects"""
    scored = sorted(((renaming_defects(r), r) for r in alts), key=lambda t: len(t[0]))
    return scored[0]


def _mirrored(p, q):
    return p != q and q in images_text(p)


def images_text(t):
    out = set()
    for m in MIRS:
        out.add(''.join(m.get(x, x) for x in pieces(t)))
    return out


def chain_mirror(c1, c2):
    """True when the two conditions are mirror images of each other in a non-trivial way: a name is replaced by its mirror image, an infinity
    changes sign or a sign test flips - and nothing else differs"""
    alts = mirror_alts(c1, c2)
    if not alts:
        return False
    why, ren = best(alts)
    if why:
        return False
    diff = [(p, q) for p, q in ren if p != q and not p.startswith('@')]
    if any(not _mirrored(p, q) for p, q in diff):
        return False          # conditions about different things
    if diff:
        return True
    ka = [(x.k, x.o) for x in strip(c1).walk() if x.k not in ('StringLiteral', 'CharacterLiteral')]
    kb = [(x.k, x.o) for x in strip(c2).walk() if x.k not in ('StringLiteral', 'CharacterLiteral')]
    return ka != kb        # identical up to string literals is a keyword dispatch, not a mirror


# chains whose conditions are mirror images but whose arms are deliberately not: key '<function>|chain(<first condition>)' -> reason
MIRROR_ASYMMETRIC = {
    'SPxMainSM<double>::ZeroObjColSingletonPS::execute|chain((rStatus[m_i] == ON_LOWER))':
        'both arms contain `else if(m_lower == m_upper) x[m_j] = m_lower`: under that test the two bounds are the same number',
    'SPxMainSM<double>::propagatePseudoobj|chain((objval < 0))':
        'both arms record the old bounds as TightenBoundsPS(lp, j, upper, lower): the post-step takes both, in this order, whichever bound is changed',
    'SPxMainSM<double>::propagatePseudoobj|chain((val < 0))':
        'the second arm tests `upper >= -infinity` (always true) where the mirror image is `upper >= infinity`: the function then returns before any '
        'reduction whenever a column has a positive objective coefficient - a lost reduction, not a wrong one (see CONSTANT_ACCEPTED)',
}
# mirror-named function pairs whose bodies are deliberately not mirror images: '<function>/<sibling>' -> reason
PAIR_ASYMMETRIC = {
    'SoPlexBase<double>::getBasisInverseRowRational/getBasisInverseColRational':
        '`numRowsRational()` is the dimension of the basis matrix in both functions',
    'SPxFastRT<double>::maxDelta/minDelta': '`max` is the name of the step-length parameter (an upper limit for the step) in both functions',
    'SPxFastRT<double>::maxSelect/minSelect': '`max` is the name of the step-length parameter (an upper limit for the step) in both functions',
    'SPxFastRT<double>::minSelect/maxSelect':
        'the loop exchanges low[] and up[]; the final computation of bestDelta keeps low / up and flips the sign test on upd[bestNr] instead - the same thing written the other way round',
}
# position-or-minus-one values tested with `> 0` that are accepted: '<function>|<value>' -> reason
SENTINEL_ACCEPTED = {
    'SPxFastRT<double>::minSelect|local bestNr':
        '`nr < 0 && bestNr > 0` skips the computation of bestDelta when the best instable candidate has index 0; bestDelta only steers the '
        'ratio test\'s retry / shift heuristic (a step is re-tried with relaxed stability), no result depends on it',
    'SPxFastRT<double>::maxSelect|local bestNr':
        'as in minSelect: bestDelta only steers the retry / shift heuristic of the ratio test',
}
# constant comparisons that are accepted: key -> reason
CONSTANT_ACCEPTED = {
    'SPxMainSM<double>::propagatePseudoobj|cmp(lp.upper(j) >= -inf)#1':
        'the test is always true, so propagatePseudoobj() returns before it tightens anything whenever some column has a positive objective '
        'coefficient: presolve is weaker than intended but never wrong, so this is no violation of the presolve property',
}


# ------------------------------------------------------------------------------------------------ the scan
_CACHE = {}

TEXT = {
    'S1': 'no comparison with +-infinity is constant (`x <= infinity`, `x >= -infinity`, `x < -infinity`)',
    'S2': 'a position-or-minus-one value (pos(), number(), permutation entries) is compared with 0 only by `< 0` / `>= 0`',
    'S10': 'a loop variable bounded by the number of rows (columns) is passed only to row (column) getters / setters and subscripts only per-row (per-column) arrays',
    'S11': 'an argument whose name says lower / lhs / min (or row) is not passed to a parameter whose name says upper / rhs / max (or column), and vice versa',
    'S3': 'an ascending counting loop over a container starts at 0, or at 1 after the element 0 was handled separately',
    'S4': 'a descending counting loop that starts at a computed value runs down to 0 (`>= 0`), not to 1',
    'S5': 'inside a loop over the positions of a sparse vector the vector is never subscripted by index with the position',
    'S6': 'an else-if chain (or two consecutive ifs) with lower/upper (or sign) mirror-image conditions has mirror-image arms',
    'S8': 'when one arm of a ?: on the optimisation sense is a negation, it negates exactly the other arm (`min ? e : -e`)',
    'S9': 'a two-parameter comparator whose parameters are interchangeable (ch1/ch2, a/b, x/y) applies the same expression to both',
    'S12': 'a switch arm whose label has a lower/upper mirror image and whose body names that image (ON_LOWER -> ON_UPPER) has a sibling arm for the image that names the label back',
    'S7': 'two member functions whose names are lower/upper (lhs/rhs, min/max, ...) mirror images and whose bodies have the same shape are mirror images',
}
FLOORS = {'S11': 500, 'S10': 800, 'S3': 450, 'S1': 350, 'S2': 60, 'S4': 260, 'S5': 150, 'S6': 45, 'S7': 90, 'S8': 10, 'S9': 4, 'S12': 12}
ROWB = re.compile(r'\b(nRows|numRows|numRowsReal|numRowsRational|numRowsT)\(\)')
COLB = re.compile(r'\b(nCols|numCols|numColsReal|numColsRational|numColsT)\(\)')
ROWGET = set('lhs rhs rowVector rowType maxRowObj rowObj lhsReal rhsReal lhsRational rhsRational rowVectorReal rowVectorRational rowVectorRealInternal rId changeLhs changeRhs '
             'changeRange changeRow changeRowObj lhsRealInternal rhsRealInternal basisRowStatus rowRangeType getRow removeRow changeLhsReal changeRhsReal changeRangeReal '
             'changeLhsRational changeRhsRational changeRangeRational lhsUnscaled rhsUnscaled'.split())
COLGET = set('lower upper obj maxObj colVector cId changeLower changeUpper changeObj changeBounds changeCol lowerReal upperReal objReal lowerRational upperRational objRational '
             'colVectorReal colVectorRational colVectorRealInternal lowerRealInternal upperRealInternal basisColStatus getCol removeCol changeLowerReal changeUpperReal '
             'changeBoundsReal changeObjReal changeLowerRational changeUpperRational changeBoundsRational changeObjRational lowerUnscaled upperUnscaled objUnscaled maxObjUnscaled'.split())
ROWARR = re.compile(r'(_rowTypes|_basisStatusRows|rowscaleExp|rStatus|rowStatus|m_rIdx|m_rBasisStat)$')
COLARR = re.compile(r'(_colTypes|_basisStatusCols|colscaleExp|cStatus|colStatus|m_cIdx|m_cBasisStat)$')
SIDE_WORD = {'lower': 'L', 'lo': 'L', 'lhs': 'L', 'left': 'L', 'low': 'L', 'upper': 'U', 'up': 'U', 'rhs': 'U', 'right': 'U', 'min': 'L', 'max': 'U'}
KIND_WORD = {'row': 'R', 'rows': 'R', 'col': 'C', 'cols': 'C', 'column': 'C', 'columns': 'C'}
# call sites where an argument deliberately goes to the parameter of the other side: '<caller>|<callee>(<argument>)' -> reason
ARG_ACCEPTED = {
    'SPxSolverBase::changeRange|changeRhs(newLhs)': 'under EQ(newLhs, newRhs): both sides get the identical number',
    'LPColSetBase::add|add(colIndices)': 'SVSetBase::add names its generic parameters after rows',
    'LPColSetBase::add|add(colSize)': 'SVSetBase::add names its generic parameters after rows',
    'LPColSetBase::add|add(colValues)': 'SVSetBase::add names its generic parameters after rows',
    'SoPlexBase::writeDualFileReal|writeFileLPBase(colNames)': 'the dual LP has a row per primal column: the name sets are exchanged on purpose',
    'SoPlexBase::writeDualFileReal|writeFileLPBase(rowNames)': 'the dual LP has a row per primal column: the name sets are exchanged on purpose',
    'SVSetBase::clear|reMax(minNewSize)': 'the new capacity is the requested minimum size',
    'CLUFactorRational::update|makeLvec(p_col)': 'the eta vector of a basis update is stored as an L vector; its "row" is the position of the replaced column',
    'CLUFactorRational::updateNoClear|makeLvec(p_col)': 'the eta vector of a basis update is stored as an L vector; its "row" is the position of the replaced column',
    'CLUFactor::update|makeLvec(p_col)': 'as in CLUFactorRational::update',
    'CLUFactor::updateNoClear|makeLvec(p_col)': 'as in CLUFactorRational::update',
}


def word_tag(t, table):
    ps = [x.lower() for x in pieces(t) if re.match(r'[A-Za-z]', x)]
    st = set(table[x] for x in ps if x in table)
    return list(st)[0] if len(st) == 1 else None


def arg_name(a):
    a = strip(a)
    if a is None:
        return None, False
    if a.k == 'UnaryOperator' and a.o in ('-', 'pre-') and a.c:
        return arg_name(a.kids[0])[0], True
    if a.n:
        return a.short, False
    if a.k in ('ArraySubscriptExpr', 'ParenExpr', 'MaterializeTemporaryExpr', 'CXXBindTemporaryExpr', 'CXXConstructExpr', 'CXXFunctionalCastExpr', 'ImplicitCastExpr', 'UnaryOperator') and a.c:
        return arg_name(a.kids[0])
    return None, False


SENSEPAT = re.compile(r'MINIMIZE|MAXIMIZE|\bmaximizing\b|\bminimizing\b|maxSense|spxSense|m_thesense')
SPARSE = re.compile(r'^(const )?(class )?(soplex::)?(SVectorBase|SSVectorBase|DSVectorBase|UnitVectorBase)<')
PERMNAME = re.compile(r'perm', re.I)


def _fname(f):
    return f.name.replace('soplex::', '')[:70]


def _scan(fb):
    if 'res' in _CACHE:
        return _CACHE['res']
    dead = _dead(fb)
    res = {k: [] for k in TEXT}       # rule -> [(func, key, where, ok, detail)]
    ctl = set()
    comparable = set()   # chains / pairs whose two sides have the same shape today
    nc = {}              # chains / pairs with mirror-image conditions / names whose sides differ in shape: key -> where
    # functions returning -1 on some path (the "position or -1" protocol), by USR
    minus1 = set()
    for f in fb.funcs.values():
        if f.ret.split(' ')[0] != 'int' or (f.short or '') not in ('pos', 'number', 'index', 'find'):
            continue
        if any(n.k == 'ReturnStmt' and n.c and render(strip(n.kids[0])).strip('()') == '-1' for n in f.nodes):
            minus1.add(f.u)
    ndead = 0
    for f in sorted(fb.funcs.values(), key=lambda g: (g.file, g.line, g.name)):
        isctl = f.name.startswith('verif_ctl::')
        if not (f.name.startswith('soplex::') or isctl or f.externc) or not f.nodes:
            continue
        if f.u in dead:
            ndead += 1
            continue
        seen = {}
        # locals that hold "an index or -1": initialised with / assigned the literal -1
        m1loc = set(x.u for x in f.nodes if x.k == 'VarDecl' and x.t == 'int' and x.c and render(strip(x.kids[0])).strip('()') == '-1')
        for x in f.nodes:
            if x.k == 'BinaryOperator' and x.o == '=' and render(strip(x.kids[1])).strip('()') == '-1':
                l_ = strip(x.kids[0])
                if l_.k == 'DeclRefExpr' and l_.dk == 'local' and l_.t == 'int':
                    m1loc.add(l_.u)

        def key(base):
            seen[base] = seen.get(base, 0) + 1
            return '%s|%s#%d' % (_fname(f), base, seen[base])

        def put(rule, base, node, ok, detail, tag):
            if isctl:
                if not ok:
                    ctl.add(tag)
                return
            res[rule].append((f, key(base), '%s:%d' % (f.file, node.l), ok, detail))

        # ---- S12: mirror switch arms.  An arm labelled L whose statements name the mirror image L' of L (and not L) swaps sides; the switch then has an arm of
        # its own for L' that names L.  Functions whose own name is one-sided (changeLowerStatus, ...) are asymmetric by construction: their mirror image is the
        # sibling function (S7).
        if not any(side_changed(f.short or '', im) for im in images(f.short or '')):
            from engine import case_arm_nodes
            for sw in f.nodes:
                if sw.k != 'SwitchStmt':
                    continue
                labels = {}
                for cs in sw.walk():
                    if cs.k == 'CaseStmt' and cs.kids:
                        anc = [a for a in f.ancestors(cs) if a.k == 'SwitchStmt']
                        if anc and anc[0].i == sw.i:
                            labels[render(strip(cs.kids[0])).split('::')[-1]] = cs

                def armnames(cs):
                    arm = case_arm_nodes(f, cs)
                    labs = set(y.i for y in cs.kids[0].walk())
                    for x in arm:
                        if x.k == 'CaseStmt' and x.kids:
                            labs |= set(y.i for y in x.kids[0].walk())
                    return set(x.short for x in arm if x.k == 'DeclRefExpr' and x.dk == 'enum' and x.i not in labs)
                for L, cs in sorted(labels.items()):
                    n1 = armnames(cs)
                    for L2 in sorted(images(L) - {L}):
                        if not side_changed(L, L2) or L2 not in n1 or L in n1:
                            continue
                        if L2 not in labels:
                            put('S12', 'case %s' % L, cs, False, 'the arm `case %s` maps to %s, but the switch has no arm for %s: the mirror case falls to the default' % (L, L2, L2), 'S12')
                            continue
                        n2 = armnames(labels[L2])
                        ok12 = L in n2 and L2 not in n2
                        put('S12', 'case %s' % L, cs, ok12, 'case %s names %s' % (L2, L) if ok12 else
                            'the arm `case %s` (line %d) maps to %s, but the arm `case %s` (line %d) does not map back to %s (it names %s): one side is swapped, the other is not' %
                            (L, cs.l, L2, L2, labels[L2].l, L, sorted(n2)[:4]), 'S12')
        # ---- S9: symmetric comparators
        if len(f.params) == 2 and f.params[0][1] == f.params[1][1] and f.params[0][0] and f.params[1][0] \
                and len(f.params[0][0]) == len(f.params[1][0]) and f.params[0][0][:-1] == f.params[1][0][:-1] and f.params[0][0] != f.params[1][0]:
            for n in f.nodes:
                if n.k != 'ReturnStmt' or not n.c:
                    continue
                cp = cmp_parts(strip(n.kids[0]))
                if not cp:
                    continue
                ua = set(x.n for x in cp[1].walk() if x.k == 'DeclRefExpr' and x.dk == 'parm')
                ub = set(x.n for x in cp[2].walk() if x.k == 'DeclRefExpr' and x.dk == 'parm')
                if len(ua) == 1 and len(ub) == 1 and ua != ub:
                    ta = re.sub(r'\b%s\b' % re.escape(list(ua)[0]), '@', render(cp[1]))
                    tb = re.sub(r'\b%s\b' % re.escape(list(ub)[0]), '@', render(cp[2]))
                    put('S9', 'compare(%s,%s)' % (f.params[0][0], f.params[1][0]), n, ta == tb, 'both sides are %s' % ta[:40] if ta == tb else
                        '`%s` compares %s of one argument with %s of the other: the comparison depends on which argument comes first' % (render(strip(n.kids[0]))[:70], ta[:30], tb[:30]), 'S9')
        # ---- S11: argument / parameter name agreement
        for n in f.nodes:
            if not n.is_call() or n.k == 'CXXOperatorCallExpr' or f.in_assert(n):
                continue
            g = fb.funcs.get(n.u)
            if g is None or not g.params:
                continue
            args11 = n.kids if n.k in ('CXXConstructExpr', 'CXXTemporaryObjectExpr') else n.args()
            if len(args11) > len(g.params):
                continue
            for a11, (pn, _pt) in zip(args11, g.params):
                an, negd = arg_name(a11)
                if not an or not pn or negd:
                    continue
                for table in (SIDE_WORD, KIND_WORD):
                    ta, tp = word_tag(an, table), word_tag(pn, table)
                    if not (ta and tp):
                        continue
                    base11 = '%s(%s)' % (g.short, an)
                    if ta != tp and table is SIDE_WORD and g.short in ('changeLower', 'changeUpper', 'changeLhs', 'changeRhs') and strip(a11).is_call() \
                            and strip(a11).short in ('lower', 'upper', 'lhs', 'rhs'):
                        continue      # fixing a variable / row at its other bound: changeLower(j, upper(j))
                    acc11 = ARG_ACCEPTED.get('%s|%s' % (re.sub(r'<[^<>]*(<[^<>]*>)?[^<>]*>', '', _fname(f)), base11))
                    put('S11', base11, n, ta == tp or acc11 is not None, 'same side' if ta == tp else ('accepted: ' + acc11) if acc11 else
                        '`%s` is passed to the parameter `%s` of %s: the names say it is the other %s' % (render(strip(a11))[:40], pn, g.short, 'side (lower / upper)' if table is SIDE_WORD else 'kind (row / column)'), 'S11')
        for n in f.nodes:
            p = cmp_parts(n) if n.k in ('BinaryOperator', 'CXXOperatorCallExpr') else None
            if p and not f.in_assert(n):
                op, a, b = p
                # ---- S1
                for side, (x, y) in enumerate(((a, b), (b, a))):
                    s = is_inf(y)
                    if s and op in ('<', '<=', '>', '>='):
                        o = op if side == 0 else FLIP[op]
                        why = INF_BAD.get((o, s))
                        k1 = '%s|cmp(%s %s %sinf)#%d' % (_fname(f), render(strip(x))[:30], o, s, seen.get('cmp(%s %s %sinf)' % (render(strip(x))[:30], o, s), 0) + 1)
                        acc = CONSTANT_ACCEPTED.get(k1)
                        put('S1', 'cmp(%s %s %sinf)' % (render(strip(x))[:30], o, s), n, why is None or acc is not None,
                            'depends on the operand' if why is None else ('accepted: ' + acc) if acc else
                            '`%s` is %s for every value in [-infinity, infinity]: the test does not distinguish a finite from an infinite %s' % (render(n)[:70], why, render(strip(x))[:30]), 'S1')
                        break
                # ---- S2
                for side, (x, y) in enumerate(((a, b), (b, a))):
                    if render(strip(y)).strip('()') != '0':
                        continue
                    x = strip(x)
                    o = op if side == 0 else FLIP[op]
                    what = None
                    if x.is_call() and x.u in minus1:
                        what = '%s()' % x.short
                    elif x.k == 'ArraySubscriptExpr':
                        base = strip(x.kids[0])
                        nm = base.short if base.n else ''
                        if nm and PERMNAME.search(nm) and 'int' in (x.t or 'int'):
                            what = '%s[]' % nm
                    elif x.k == 'DeclRefExpr' and x.u in m1loc:
                        what = 'local %s' % x.n
                    if what and ('%s|%s' % (_fname(f), what)) in SENTINEL_ACCEPTED and o not in ('<', '>='):
                        put('S2', 'cmp(%s %s 0)' % (what, o), n, True, 'accepted: ' + SENTINEL_ACCEPTED['%s|%s' % (_fname(f), what)], 'S2acc')
                        break
                    if what:
                        good = o in ('<', '>=')
                        put('S2', 'cmp(%s %s 0)' % (what, o), n, good, 'tested by %s 0' % o if good else
                            '`%s`: %s yields a position (0 is a valid one) or -1; `%s 0` treats position 0 like "absent"' % (render(n)[:70], what, o), 'S2')
                        break
            # ---- S8
            if n.k == 'ConditionalOperator' and n.kid('then') is not None and n.kid('else') is not None and not f.in_assert(n) \
                    and SENSEPAT.search(render(n.kid('cond'))):
                a8, b8 = strip(n.kid('then')), strip(n.kid('else'))
                na = strip(a8.kids[0]) if a8.k == 'UnaryOperator' and a8.o in ('-', 'pre-') and a8.c else None
                nb = strip(b8.kids[0]) if b8.k == 'UnaryOperator' and b8.o in ('-', 'pre-') and b8.c else None
                if (na is None) != (nb is None):
                    p8, q8 = (render(na), render(b8)) if na is not None else (render(a8), render(nb))
                    put('S8', 'sense?(%s)' % p8[:30], n, p8 == q8, 'negates the other arm' if p8 == q8 else
                        '`%s`: for one sense the value is %s, for the other it is minus %s - a different quantity, not the same one with the sign of the sense' % (render(n)[:90], p8[:30], q8[:30]), 'S8')
            # ---- S4 / S5: loops
            if n.k == 'ForStmt' and n.kid('cond') is not None:
                c = strip(n.kid('cond'))
                init = n.kid('init')
                inc = n.kid('inc')
                body = n.kid('body')
                if c.k == 'BinaryOperator' and c.o in ('>', '>=') and render(strip(c.kids[1])) == '0' and init is not None and inc is not None and body is not None:
                    v = render(strip(c.kids[0]))
                    ini = render(init)
                    start = re.sub(r'^.*?= ', '', ini.strip().rstrip(';'))
                    used = any(x.k == 'DeclRefExpr' and x.n == v for x in body.walk())
                    if ('--' in render(inc) or re.search(r'%s -= ' % re.escape(v), render(inc))) and v in render(inc) and not re.fullmatch(r'\(?\d+\)?', start) and used:
                        put('S4', 'loop(%s %s 0)' % (v, c.o), n, c.o == '>=', 'runs down to 0' if c.o == '>=' else
                            'the loop counts %s down from %s while %s > 0 and uses %s in its body: the value 0 (the first row / column / entry) is never visited; every other '
                            'descending loop of the code base runs while %s >= 0' % (v, start[:40], v, v, v), 'S4')
                m3 = re.search(r'(\w+) = \(?(\d+)\)?;?$', render(init).strip()) if init is not None else None
                if m3 and inc is not None and body is not None and '++' in render(inc) and c.k == 'BinaryOperator' and c.o == '<' and m3.group(2) in ('0', '1') \
                        and render(strip(c.kids[0])) == m3.group(1):
                    v3 = m3.group(1)
                    uses = [x for x in body.walk() if (x.k == 'ArraySubscriptExpr' and render(strip(x.kids[1])) == v3)
                            or (x.is_call() and any(render(strip(a_)) == v3 for a_ in x.args()))]
                    if uses:
                        if m3.group(2) == '0':
                            put('S3', 'loop(%s = 0)' % v3, n, True, 'starts at 0', 'S3ok')
                        else:
                            bodyrefs = set(x.u for x in body.walk() if x.k == 'DeclRefExpr' and x.dk == 'local')
                            first = False
                            for x in f.nodes:
                                if not (n.l - 60 <= x.l <= n.l) or x.i in set(y.i for y in n.walk()):
                                    continue
                                if x.k == 'ArraySubscriptExpr' and render(strip(x.kids[1])) == '0':
                                    first = True
                                if x.is_call() and x.short in ('index', 'value', 'element', 'operator[]') and any(render(strip(a_)) == '0' for a_ in x.args()):
                                    first = True
                                if x.k == 'BinaryOperator' and x.o == '=' and render(strip(x.kids[1])) == '0' and strip(x.kids[0]).k == 'DeclRefExpr' and strip(x.kids[0]).u in bodyrefs:
                                    first = True
                                if x.k == 'VarDecl' and x.c and render(strip(x.kids[0])) == '0' and x.u in bodyrefs:
                                    first = True
                            put('S3', 'loop(%s = 1)' % v3, n, first, 'element 0 is handled before the loop' if first else
                                'the loop over %s starts at 1 and nothing before it handles the element 0 (no subscript 0, no index(0) / value(0), no candidate initialised to 0): the first element is skipped'
                                % render(strip(c.kids[1]))[:40], 'S3')
                ctext = render(n.kid('cond')) + ' ' + (render(init) if init is not None else '')
                isr, isc = bool(ROWB.search(ctext)), bool(COLB.search(ctext))
                m10 = re.search(r'(\w+) = ', render(init)) if init is not None else None
                if isr != isc and m10 and body is not None:
                    dom, v10 = ('row' if isr else 'column'), m10.group(1)
                    for x in body.walk():
                        want = None
                        if x.k == 'CXXMemberCallExpr' and x.args() and render(strip(x.args()[0])) == v10:
                            want = 'row' if x.short in ROWGET else 'column' if x.short in COLGET else None
                            what = x.short + '()'
                        elif x.k == 'ArraySubscriptExpr' and render(strip(x.kids[1])) == v10:
                            b10 = render(strip(x.kids[0]))
                            want = 'row' if ROWARR.search(b10) else 'column' if COLARR.search(b10) else None
                            what = b10 + '[]'
                        elif x.k == 'CXXOperatorCallExpr' and x.short == 'operator[]' and len(x.kids) >= 3 and render(strip(x.kids[2])) == v10:
                            b10 = render(strip(x.kids[1]))
                            want = 'row' if ROWARR.search(b10) else 'column' if COLARR.search(b10) else None
                            what = b10 + '[]'
                        if want:
                            put('S10', '%s-loop(%s)|%s' % (dom, v10, what[:30]), x, want == dom, '%s index used for %s data' % (dom, want) if want == dom else
                                '%s counts the %ss (loop bound %s) but `%s` addresses per-%s data with it: the entry of a different row / column is used, or an entry beyond the end'
                                % (v10, dom, render(strip(n.kid('cond')))[:40], render(x)[:50], want), 'S10')
                lb = _size_loop(n)
                if lb and body is not None:
                    v, recv, sz = lb
                    rt = sz.obj().t if sz.obj() is not None else ''
                    if SPARSE.search(rt):
                        nuse = 0
                        for x in body.walk():
                            if x.k == 'CXXMemberCallExpr' and x.obj() is not None and render(strip(x.obj())) == recv and x.short in ('index', 'value', 'element'):
                                a0 = x.args()
                                if a0 and render(strip(a0[0])) == v:
                                    nuse += 1
                            if x.k == 'CXXOperatorCallExpr' and x.short == 'operator[]' and len(x.kids) >= 3 and render(strip(x.kids[1])) == recv \
                                    and render(strip(x.kids[2])) == v:
                                put('S5', 'loop(%s < %s.size())|%s[%s]' % (v, recv[:30], recv[:30], v), x, False,
                                    '%s runs over the positions 0..%s.size()-1 of the sparse vector, but `%s` looks up the entry whose INDEX is %s: the value at position %s is %s.value(%s)' % (v, recv, render(x)[:50], v, v, recv, v), 'S5')
                        put('S5', 'loop(%s < %s.size())' % (v, recv[:30]), n, True, '%d positional reads' % nuse, 'S5ok')
            # ---- S6
            pairs6 = []
            if n.k == 'IfStmt' and n.kid('else') is not None and n.kid('else').k == 'IfStmt':
                pairs6.append((n, n.kid('else')))
            if n.k == 'CompoundStmt':
                ks = n.kids
                for i_ in range(len(ks) - 1):
                    if ks[i_].k == 'IfStmt' and ks[i_ + 1].k == 'IfStmt' and ks[i_].kid('else') is None and ks[i_ + 1].kid('else') is None:
                        pairs6.append((ks[i_], ks[i_ + 1]))
            for x6, y in pairs6:
                c1, c2 = x6.kid('cond'), y.kid('cond')
                if c1 is None or c2 is None or render(c1) == render(c2) or not chain_mirror(c1, c2):
                    continue
                alts = mirror_alts(x6.kid('then'), y.kid('then'))
                base6 = 'chain(%s)' % render(c1)[:50]
                k_ = '%s|%s' % (_fname(f), base6)
                kk = None if isctl else key(base6)
                if not alts:
                    if not isctl:
                        nc['chain:' + kk] = ('%s:%d' % (f.file, x6.l), owner(f))
                    continue
                why = best(alts)[0]
                if isctl:
                    if why:
                        ctl.add('S6')
                    continue
                comparable.add('chain:' + kk)
                if k_ in MIRROR_ASYMMETRIC:
                    res['S6'].append((f, kk, '%s:%d' % (f.file, x6.l), True, 'listed as asymmetric: ' + MIRROR_ASYMMETRIC[k_]))
                else:
                    res['S6'].append((f, kk, '%s:%d' % (f.file, x6.l), not why,
                                      'arms are mirror images' if not why else
                                      'the conditions `%s` / `%s` are mirror images and the arms have the same shape, but %s (second arm at line %d)'
                                      % (render(c1)[:40], render(c2)[:40], why[0], y.kid('then').l)))
    # ---- S7: mirror-named sibling functions
    seen7 = set()
    for f in sorted(fb.funcs.values(), key=lambda g: (g.file, g.line, g.name)):
        isctl = f.name.startswith('verif_ctl::')
        if not (f.name.startswith('soplex::') or isctl) or not f.nodes or f.body is None or f.u in dead:
            continue
        for m in MIRS + KIND_MIRS:
            gname = ''.join(m.get(p_, p_) for p_ in pieces(f.short or ''))
            if gname == f.short:
                continue
            full = f.name[:len(f.name) - len(f.short)] + gname
            gs = [g for g in fb.find(full) if [''.join(m.get(p_, p_) for p_ in pieces(t)) for _, t in g.params] == [t for _, t in f.params] and g.body is not None and g.const == f.const]
            if len(gs) != 1 or (gs[0].u, f.u) in seen7 or (f.u, gs[0].u) in seen7:
                continue
            g = gs[0]
            seen7.add((f.u, g.u))
            k_ = '%s/%s' % (_fname(f), gname)
            if len(f.params):
                k_ += '(%s)' % ','.join(short_t(t) for _, t in f.params)
            alts = mirror_alts(f.body, g.body)
            if not alts:
                if not isctl:
                    nc['pair:' + k_] = ('%s:%d' % (f.file, f.line), owner(f))
                continue
            why, ren7 = best(alts)
            if not why:
                why = _uniform(ren7, m)
            if isctl:
                if why:
                    ctl.add('S7')
                continue
            comparable.add('pair:' + k_)
            acc = PAIR_ASYMMETRIC.get('%s/%s' % (_fname(f), gname))
            res['S7'].append((f, k_, '%s:%d' % (f.file, f.line), (not why) or acc is not None,
                              'bodies are mirror images' if not why else ('listed as asymmetric: ' + acc) if acc else
                              '%s (line %d) and %s (line %d) have the same shape, but %s' % (f.short, f.line, gname, g.line, why[0])))
    _reference(comparable, nc)
    need = {'S1', 'S10', 'S11', 'S12', 'S2', 'S3', 'S4', 'S5', 'S6', 'S7', 'S8', 'S9'}
    if not need <= ctl:
        raise AnalysisBroken('shape rules: positive controls did not fire: %s' % sorted(need - ctl))
    for r, fl in FLOORS.items():
        if len(res[r]) < fl:
            raise AnalysisBroken('shape rule %s matched %d instances in the whole program, confirmed floor is %d' % (r, len(res[r]), fl))
    _CACHE['res'] = res
    _CACHE['ndead'] = ndead
    return res


def _uniform(ren, m):
    """in two functions whose NAMES differ by the mirror family m, every identifier of that family is exchanged too - except where both
    sides are used symmetrically (lhs and rhs both occur unchanged)"""
    same, flipped = set(), set()
    for p, q in ren:
        if p.startswith('@'):
            continue
        for w1, w2 in zip(re.findall(r'[A-Za-z_]\w*', p), re.findall(r'[A-Za-z_]\w*', q)):
            if any(x in m for x in pieces(w1)):
                (same if w1 == w2 else flipped).add(w1)
    if not flipped:
        return []
    out = []
    for w in sorted(same):
        mw = ''.join(m.get(x, x) for x in pieces(w))
        if mw not in same:
            out.append('`%s` is used by both functions although everything else of its kind is exchanged (%s): the sibling works on the other side\'s data there'
                       % (w, ', '.join('%s/%s' % (x, ''.join(m.get(y, y) for y in pieces(x))) for x in sorted(flipped)[:2])))
    return out


def short_t(t):
    return re.sub(r'soplex::|const |class |struct ', '', t).replace(' ', '')[:40]


REF = os.path.join(os.path.dirname(os.path.abspath(__file__)), 'mirror_reference.json')


def _reference(comparable, nc):
    """The chains and function pairs that are comparable (same shape on both sides) on the tree the rules were confirmed on are listed in
    mirror_reference.json.  One of them that can no longer be compared has drifted apart: that is neither a pass nor a violation - the
    rule has lost its object (ANALYSIS-BROKEN), and the report names it."""
    import json
    _CACHE['comparable'] = comparable
    _CACHE['nc'] = nc
    if os.environ.get('SPX_MIRROR_WRITE_REF'):
        json.dump({'comparable': sorted(comparable)}, open(REF, 'w'), indent=0)
        return
    if not os.path.exists(REF):
        raise AnalysisBroken('rules/mirror_reference.json is missing')
    ref = set(json.load(open(REF))['comparable'])
    # reported as UNRECOGNISED instances of the owning property by run(): neither a pass nor a violation there, and no obstacle for the others
    _CACHE['lost'] = [(k, nc[k][0], nc[k][1]) for k in sorted(ref) if k in nc]


def _size_loop(n):
    """(loop variable, rendered receiver, size() call) when the for loop runs over 0..R.size()-1 in either direction"""
    c = n.kid('cond')
    ini = n.kid('init')
    if c is None:
        return None
    c = strip(c)
    if c.k == 'BinaryOperator' and c.o == '<':
        r, v = strip(c.kids[1]), strip(c.kids[0])
        if r.is_call() and r.short == 'size' and r.obj() is not None and v.k == 'DeclRefExpr':
            return v.n, render(strip(r.obj())), r
    if c.k == 'BinaryOperator' and c.o == '>=' and render(strip(c.kids[1])) == '0' and ini is not None and strip(c.kids[0]).k == 'DeclRefExpr':
        m = re.search(r'(\w+) = \(?(.*)\.size\(\) - 1\)?', render(ini))
        if m and strip(c.kids[0]).n == m.group(1):
            for x in ini.walk():
                if x.is_call() and x.short == 'size' and x.obj() is not None:
                    return m.group(1), render(strip(x.obj())), x
    return None


def run(pid, fb, rep, only=None):
    """report the shape-rule instances inside the functions owned by property pid as rules R<nn>.S*"""
    res = _scan(fb)
    nn = pid[1:]
    for key_, where_, own_ in _CACHE.get('lost', []):
        if own_ == pid:
            rid_ = 'R%s.%s' % (nn, 'S6' if key_.startswith('chain:') else 'S7')
            if rid_ not in rep.rules:
                rep.rule(rid_, TEXT['S6' if key_.startswith('chain:') else 'S7'] + ' (generic shape rule over the functions this property owns)', floor=1)
            rep.unrec(rid_, key_, where_, 'the two sides no longer have the same shape (a statement, call or operator exists on one side only); they were mirror images on the confirmed tree')
    for s in sorted(TEXT):
        if only and s not in only:
            continue
        rid = 'R%s.%s' % (nn, s)
        mine = [t for t in res[s] if owner(t[0]) == pid]
        if not mine:
            continue
        rep.rule(rid, TEXT[s] + ' (generic shape rule over the functions this property owns)', floor=1)
        for f, key, where, ok, detail in mine:
            if ok:
                rep.ok(rid, key, where, detail)
            else:
                rep.bad(rid, key, where, detail)
        rep.ok(rid, 'scan|whole program', 'src', '%d instances in the program, %d in functions owned by %s; positive control fires; %d uncalled private functions skipped'
               % (len(res[s]), len(mine), pid, _CACHE.get('ndead', 0)), nontrivial=False)


def unowned(fb):
    """violating instances in functions that no claimed property owns (printed by tools, never a verdict)"""
    res = _scan(fb)
    return [(s, t) for s in res for t in res[s] if not t[3] and owner(t[0]) is None]
